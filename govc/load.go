package main

// Loading /repo (current working tree, tags=verif, plus lemma overlay files from /verif/lemmas)
// and building SSA.

import (
	"sync"
	"fmt"
	"os"
	"path/filepath"
	"sort"
	"strings"

	"golang.org/x/tools/go/packages"
	"golang.org/x/tools/go/ssa"
	"golang.org/x/tools/go/ssa/ssautil"
)

type Program struct {
	RepoDir       string
	VerifDir      string
	Pkgs          map[string]*packages.Package // by short name: packet, modbus, server
	SSA           *ssa.Program
	SSAPkgs       map[string]*ssa.Package
	Funcs         map[string]*ssa.Function // key: pkgshort.RelString e.g. "packet.CRC16", "packet.(Registers).Uint16"
	Contracts     map[string]*Contract
	Specs         map[string]*SpecFun  // key pkgshort.name and bare name
	Ifaces        map[string]*Contract // interface method contracts: "net.Conn.Read"
	LemmaFiles    map[string]string    // overlay target path -> source path
	ContractFiles []string
	Ghosts        []ParamDecl // ghost variables declared in spec files

	LocalSnaps  map[string]LocalSnap // contracts/locals.json: names the contracts were written against
	renMu       sync.Mutex
	renCache    map[*ssa.Function]map[string]string
	RenameNotes []string
}

const modPath = "github.com/aldas/go-modbus-client"

var pkgDirs = map[string]string{"packet": "packet", "modbus": ".", "server": "server"}

func shortPkg(path string) string {
	switch path {
	case modPath:
		return "modbus"
	case modPath + "/packet":
		return "packet"
	case modPath + "/server":
		return "server"
	}
	return path
}

func LoadProgram(repo, verif string) (*Program, error) {
	p := &Program{RepoDir: repo, VerifDir: verif, Pkgs: map[string]*packages.Package{}, SSAPkgs: map[string]*ssa.Package{},
		Funcs: map[string]*ssa.Function{}, Contracts: map[string]*Contract{}, Specs: map[string]*SpecFun{}, Ifaces: map[string]*Contract{},
		LemmaFiles: map[string]string{}}
	overlay := map[string][]byte{}
	for short, dir := range pkgDirs {
		ldir := filepath.Join(verif, "lemmas", short)
		ents, _ := os.ReadDir(ldir)
		for _, e := range ents {
			if !strings.HasSuffix(e.Name(), ".go") {
				continue
			}
			src, err := os.ReadFile(filepath.Join(ldir, e.Name()))
			if err != nil {
				return nil, err
			}
			target := filepath.Join(repo, dir, "zz_lemma_"+e.Name())
			overlay[target] = src
			p.LemmaFiles[target] = filepath.Join(ldir, e.Name())
		}
	}
	cfg := &packages.Config{
		Mode: packages.NeedName | packages.NeedFiles | packages.NeedCompiledGoFiles | packages.NeedImports |
			packages.NeedDeps | packages.NeedTypes | packages.NeedSyntax | packages.NeedTypesInfo | packages.NeedTypesSizes | packages.NeedModule,
		Dir:        repo,
		BuildFlags: []string{"-tags=verif"},
		Overlay:    overlay,
		Env:        append(os.Environ(), "GOFLAGS=-mod=mod", "GOPROXY=off", "GOSUMDB=off", "GOTOOLCHAIN=local"),
	}
	pkgs, err := packages.Load(cfg, ".", "./packet", "./server")
	if err != nil {
		return nil, err
	}
	var errs []string
	packages.Visit(pkgs, nil, func(pk *packages.Package) {
		for _, e := range pk.Errors {
			errs = append(errs, e.Error())
		}
	})
	if len(errs) > 0 {
		return nil, fmt.Errorf("load errors (does /repo compile with -tags verif?):\n%s", strings.Join(errs, "\n"))
	}
	prog, spkgs := ssautil.AllPackages(pkgs, ssa.GlobalDebug|ssa.InstantiateGenerics)
	prog.Build()
	p.SSA = prog
	for i, pk := range pkgs {
		s := shortPkg(pk.PkgPath)
		p.Pkgs[s] = pk
		p.SSAPkgs[s] = spkgs[i]
	}
	// index functions
	for fn := range ssautil.AllFunctions(prog) {
		if fn.Pkg == nil {
			continue
		}
		s := shortPkg(fn.Pkg.Pkg.Path())
		if _, ok := pkgDirs[s]; !ok {
			continue
		}
		p.Funcs[s+"."+fn.RelString(fn.Pkg.Pkg)] = fn
	}
	// contract files
	for short, dir := range pkgDirs {
		cf := filepath.Join(repo, dir, "zz_contracts_verif.go")
		if b, err := os.ReadFile(cf); err == nil {
			p.ContractFiles = append(p.ContractFiles, cf)
			if err := p.parseContractText(short, cf, string(b)); err != nil {
				return nil, err
			}
		}
	}
	// spec files
	sfiles, _ := filepath.Glob(filepath.Join(verif, "spec", "*.spec"))
	sort.Strings(sfiles)
	for _, sf := range sfiles {
		b, err := os.ReadFile(sf)
		if err != nil {
			return nil, err
		}
		if err := p.parseSpecText(sf, string(b)); err != nil {
			return nil, err
		}
	}
	// lemma files may carry //@ contract blocks too
	for target, src := range p.LemmaFiles {
		b, _ := os.ReadFile(src)
		short := "modbus"
		rel, _ := filepath.Rel(repo, filepath.Dir(target))
		for s, d := range pkgDirs {
			if filepath.Clean(d) == filepath.Clean(rel) {
				short = s
			}
		}
		if err := p.parseContractText(short, src, string(b)); err != nil {
			return nil, err
		}
	}
	p.loadLocalSnaps()
	return p, nil
}

func (p *Program) FuncKey(fn *ssa.Function) string {
	if fn.Pkg == nil {
		// synthetic wrappers etc: use the object package when available
		if fn.Object() != nil && fn.Object().Pkg() != nil {
			return shortPkg(fn.Object().Pkg().Path()) + "." + fn.RelString(fn.Object().Pkg())
		}
		return fn.String()
	}
	return shortPkg(fn.Pkg.Pkg.Path()) + "." + fn.RelString(fn.Pkg.Pkg)
}
