package main

// Solver portfolio: z3-new (5.1.0) first, then cvc5 and z3 4.8.12 raced on anything not decided.

import (
	"syscall"
	"runtime"
	"bytes"
	"context"
	"fmt"
	"os"
	"os/exec"
	"path/filepath"
	"regexp"
	"strings"
	"sync"
	"time"
)

type SolveResult struct {
	Status  string // unsat sat unknown timeout error
	Solver  string
	Seconds float64
	Output  string
	Values  []string // get-value results (raw), when sat
	Script  string
	Tried   []string
	Agree   []string // thorough: other solvers that also said unsat
}

type Solver struct {
	Name string
	Args func(file string, timeout int) []string
}

var solvers = []Solver{
	{"z3-new", func(f string, t int) []string { return []string{"z3-new", fmt.Sprintf("-T:%d", t), f} }},
	{"cvc5", func(f string, t int) []string {
		return []string{"cvc5", "--lang=smt2", fmt.Sprintf("--tlimit=%d", t*1000), "--produce-models", f}
	}},
	{"z3", func(f string, t int) []string { return []string{"z3", fmt.Sprintf("-T:%d", t), f} }},
	// alternative configurations of z3 5.1: on quantified bit-vector goals they often differ by 10x
	{"z3-new/relevancy0", func(f string, t int) []string { return []string{"z3-new", fmt.Sprintf("-T:%d", t), "smt.relevancy=0", f} }},
	{"z3-new/noautocfg", func(f string, t int) []string {
		return []string{"z3-new", fmt.Sprintf("-T:%d", t), "smt.auto_config=false", "smt.mbqi=false", f}
	}},
}

// solverSlots bounds the number of solver processes running at once to the number of cores: the solvers'
// time limits are wall-clock, so oversubscription turns fast queries into timeouts.
var solverSlots = make(chan struct{}, runtime.NumCPU())

func runSolver(ctx context.Context, s Solver, file string, timeout int) (string, string, float64) {
	select {
	case solverSlots <- struct{}{}:
		defer func() { <-solverSlots }()
	case <-ctx.Done():
		return "cancelled", "", 0
	}
	if ctx.Err() != nil {
		return "cancelled", "", 0
	}
	// the budget is CPU time (ulimit -t), so that a loaded machine does not turn decided queries into timeouts; the
	// solver's own (wall-clock) limit and the context are only a backstop at four times the budget
	wall := 4*timeout + 4
	args := s.Args(file, wall)
	cctx, cancel := context.WithTimeout(ctx, time.Duration(wall+2)*time.Second)
	defer cancel()
	shArgs := append([]string{"-c", fmt.Sprintf("ulimit -t %d; exec \"$0\" \"$@\"", timeout+1)}, args...)
	cmd := exec.CommandContext(cctx, "sh", shArgs...)
	var out bytes.Buffer
	cmd.Stdout = &out
	cmd.Stderr = &out
	t0 := time.Now()
	_ = cmd.Run()
	el := time.Since(t0).Seconds()
	if ps := cmd.ProcessState; ps != nil {
		if cpu := (ps.UserTime() + ps.SystemTime()).Seconds(); cpu > 0 {
			el = cpu
		}
		if ws, ok := ps.Sys().(syscall.WaitStatus); ok && ws.Signaled() && cctx.Err() == nil && ctx.Err() == nil {
			return "timeout", out.String(), el // CPU limit reached (SIGXCPU / SIGKILL)
		}
	}
	o := out.String()
	first := strings.TrimSpace(strings.SplitN(o, "\n", 2)[0])
	switch first {
	case "unsat", "sat", "unknown":
		return first, o, el
	case "timeout":
		return "timeout", o, el
	}
	if cctx.Err() != nil {
		return "timeout", o, el
	}
	if strings.Contains(o, "timeout") || strings.Contains(o, "interrupted") {
		return "timeout", o, el
	}
	return "error", o, el
}

type SolveOpts struct {
	SkipPlainFirst bool // the short first stage on the plain script has already been run
	FirstBudget    int  // seconds for SolveFirst (0: default 2)
	Timeout    int // seconds per solver
	Thorough   bool
	ScratchDir string
}

var fileCounter int
var fileMu sync.Mutex

func Solve(script string, opts SolveOpts) *SolveResult { return SolveAided(script, "", "", opts) }

// SolveFirst: only the short first stage (z3 5.1 on the plain query).
func SolveFirst(script string, opts SolveOpts) *SolveResult {
	fileMu.Lock()
	fileCounter++
	n := fileCounter
	fileMu.Unlock()
	file := filepath.Join(opts.ScratchDir, fmt.Sprintf("q%06d.smt2", n))
	if err := os.WriteFile(file, []byte(script), 0644); err != nil {
		return &SolveResult{Status: "error", Output: err.Error()}
	}
	defer os.Remove(file)
	res := &SolveResult{Script: script}
	t1 := opts.Timeout
	if t1 > 2 {
		t1 = 2
	}
	if opts.FirstBudget > 0 && opts.FirstBudget < t1 {
		t1 = opts.FirstBudget
	}
	ctx := context.Background()
	st, out, el := runSolver(ctx, solvers[0], file, t1)
	res.Tried = append(res.Tried, fmt.Sprintf("%s:%s:%.2fs", solvers[0].Name, st, el))
	res.Seconds = el
	res.Status, res.Solver, res.Output = st, solvers[0].Name, out
	if opts.Thorough && st == "unsat" {
		secondOpinion(ctx, res, file, opts, 0)
	}
	finishValues(res)
	return res
}

// SolveAided: aided is the same query plus hypotheses that are consequences of the others (instances of
// quantified hypotheses): an answer on either script is an answer for the query.
func SolveAided(script, aided, ground string, opts SolveOpts) *SolveResult {
	write := func(txt string) (string, error) {
		fileMu.Lock()
		fileCounter++
		n := fileCounter
		fileMu.Unlock()
		file := filepath.Join(opts.ScratchDir, fmt.Sprintf("q%06d.smt2", n))
		return file, os.WriteFile(file, []byte(txt), 0644)
	}
	file, err := write(script)
	if err != nil {
		return &SolveResult{Status: "error", Output: err.Error()}
	}
	defer os.Remove(file)
	afile := ""
	if aided != "" {
		if afile, err = write(aided); err != nil {
			return &SolveResult{Status: "error", Output: err.Error()}
		}
		defer os.Remove(afile)
	}
	gfile := ""
	if ground != "" {
		if gfile, err = write(ground); err != nil {
			return &SolveResult{Status: "error", Output: err.Error()}
		}
		defer os.Remove(gfile)
	}
	res := &SolveResult{Script: script}
	ctx := context.Background()
	// stage 1: z3-new with a short budget, on the plain and then on the aided script
	t1 := opts.Timeout
	if t1 > 2 {
		t1 = 2
	}
	for _, f := range []string{gfile, file, afile} {
		if f == "" || (f == file && opts.SkipPlainFirst) {
			continue
		}
		nm := solvers[0].Name
		if f == afile {
			nm += "+inst"
		}
		if f == gfile {
			nm += "+ground"
		}
		tt := t1
		if f == gfile && opts.Timeout >= 8 {
			tt = 4 // the quantifier-free arm is the one most likely to decide a quantified goal: give it more room first
		}
		st, out, el := runSolver(ctx, solvers[0], f, tt)
		res.Tried = append(res.Tried, fmt.Sprintf("%s:%s:%.2fs", nm, st, el))
		res.Seconds += el
		if f == gfile && st != "unsat" {
			continue // the ground arm is a weakening: only a refutation counts
		}
		if st == "unsat" || st == "sat" {
			res.Status, res.Solver, res.Output = st, nm, out
			if opts.Thorough && st == "unsat" {
				secondOpinion(ctx, res, f, opts, 0)
			}
			finishValues(res)
			return res
		}
	}
	// stage 2: race the whole portfolio with the full budget
	type r struct {
		name string
		i    int
		file string
		st   string
		out  string
		el   float64
	}
	type entry struct {
		i    int
		file string
		name string
	}
	var entries []entry
	for _, i := range []int{1, 2, 0} {
		entries = append(entries, entry{i, file, solvers[i].Name})
	}
	if gfile != "" {
		for _, i := range []int{0, 1} {
			entries = append(entries, entry{i, gfile, solvers[i].Name + "+ground"})
		}
	}
	if afile != "" {
		for _, i := range []int{0, 1} {
			entries = append(entries, entry{i, afile, solvers[i].Name + "+inst"})
		}
	}
	for _, i := range []int{3, 4} {
		entries = append(entries, entry{i, file, solvers[i].Name})
	}
	if afile != "" {
		entries = append(entries, entry{3, afile, solvers[3].Name + "+inst"})
	}
	cctx, cancel := context.WithCancel(ctx)
	defer cancel()
	ch := make(chan r, len(entries))
	for _, e := range entries {
		go func(e entry) {
			s, o, el := runSolver(cctx, solvers[e.i], e.file, opts.Timeout)
			ch <- r{e.name, e.i, e.file, s, o, el}
		}(e)
	}
	best := r{i: -1, st: "unknown"}
	for range entries {
		x := <-ch
		if x.st == "cancelled" {
			continue
		}
		res.Tried = append(res.Tried, fmt.Sprintf("%s:%s:%.2fs", x.name, x.st, x.el))
		if x.file == gfile && x.st != "unsat" {
			continue
		}
		if x.st == "unsat" || x.st == "sat" {
			best = x
			cancel()
			break
		}
		if best.i < 0 || (best.st == "error" && x.st != "error") {
			best = x
		}
	}
	res.Seconds += best.el
	res.Status, res.Output = best.st, best.out
	if best.i >= 0 {
		res.Solver = best.name
	}
	if opts.Thorough && res.Status == "unsat" {
		secondOpinion(ctx, res, best.file, opts, best.i)
	}
	finishValues(res)
	return res
}

func secondOpinion(ctx context.Context, res *SolveResult, file string, opts SolveOpts, skip int) {
	for i := range solvers[:3] {
		if i == skip || (skip >= 3 && i == 0) {
			continue
		}
		t2 := opts.Timeout
		if t2 > 15 {
			t2 = 15 // a second opinion is a cross-check, not a second proof attempt: undecided within 15 s counts as "none"
		}
		st, _, el := runSolver(ctx, solvers[i], file, t2)
		res.Tried = append(res.Tried, fmt.Sprintf("%s:%s:%.2fs(second)", solvers[i].Name, st, el))
		if st == "unsat" {
			res.Agree = append(res.Agree, solvers[i].Name)
			return
		}
		if st == "sat" {
			res.Status = "disagreement"
			return
		}
	}
}

var valueRe = regexp.MustCompile(`(#x[0-9a-fA-F]+|#b[01]+|\btrue\b|\bfalse\b|\(- \d+\)|(?:\s)\d+(?:\)))`)

// finishValues extracts the get-value answers (in order) when sat.
func finishValues(res *SolveResult) {
	if res.Status != "sat" {
		return
	}
	o := res.Output
	i := strings.Index(o, "\n")
	if i < 0 {
		return
	}
	body := o[i+1:]
	res.Values = parseGetValue(body)
}

// parseGetValue parses "((t1 v1) (t2 v2) ...)" returning the values as strings.
func parseGetValue(s string) []string {
	s = strings.TrimSpace(s)
	if !strings.HasPrefix(s, "(") {
		return nil
	}
	// tokenise into top-level pairs
	var vals []string
	depth := 0
	start := -1
	for i := 0; i < len(s); i++ {
		switch s[i] {
		case '(':
			depth++
			if depth == 2 {
				start = i
			}
		case ')':
			if depth == 2 && start >= 0 {
				pair := s[start+1 : i]
				vals = append(vals, lastSexp(pair))
				start = -1
			}
			depth--
		}
	}
	return vals
}

// lastSexp returns the last s-expression of a "(term value)" pair body.
func lastSexp(p string) string {
	p = strings.TrimSpace(p)
	if strings.HasSuffix(p, ")") {
		depth := 0
		for i := len(p) - 1; i >= 0; i-- {
			switch p[i] {
			case ')':
				depth++
			case '(':
				depth--
				if depth == 0 {
					return p[i:]
				}
			}
		}
	}
	i := strings.LastIndexAny(p, " \t\n")
	return strings.TrimSpace(p[i+1:])
}
