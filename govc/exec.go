package main

// Symbolic executor over go/ssa: generates verification conditions for one function
// (or lemma procedure) against its contract.  Path-wise, loops cut at headers by invariants,
// callees replaced by their contracts (or inlined when they have none and are in the repo).

import (
	"os"
	"fmt"
	"go/constant"
	"go/token"
	"go/types"
	"math"
	"math/big"
	"sort"
	"strings"

	"golang.org/x/tools/go/ssa"
)

type Obligation struct {
	Name      string
	Kind      string // safety ensures requires invariant-init invariant-preserve frame lemma cover
	Func      string
	Labels    []string
	Asserts   []*Term // path condition
	Aid       []*Term // consequences of quantified hypotheses at the goal skolems (optional portfolio arm)
	Goal      *Term
	Pos       string
	Clause    *Clause
	x         *Exec
	Inputs    []NamedVal // parameters of the function under verification (for replay)
	Outputs   []NamedVal // results at a return site (ensures obligations)
	PanicObl  bool
	Detail    string
	Trivial   bool
	Result    *SolveResult
	Region    *Term // known-finding region (if the obligation is listed)
	Observed  *Term // known behaviour inside the region (proved instead of the goal there)
	Finding   *Finding
	ModelVals Model
}

type NamedVal struct {
	Name string
	Val  SVal
	T    types.Type
}

type Frame struct {
	unrolling  bool // executing inside a loop that is unrolled (blocks may run several times per path)
	id         int
	fn         *ssa.Function
	env        map[ssa.Value]SVal
	params     []SVal
	depth      int
	contract   *Contract
	top        bool
	entry      *State
	results    []SVal // named at return for ensures
	headers    map[*ssa.BasicBlock]int
	loopPre    map[int]map[*Object]*ObjState // memory right after havoc at loop N
	loopGhostPre map[int]map[string]SVal
	sawDefer     bool
	ghostLocal map[string]SVal
	callSite   string
	noOver     map[*Object]bool
}

type Exec struct {
	depOf      string // non-empty: verified as a dependency of this property (all clauses; findings of any property apply)
	bbFresh    map[string]bool
	curBVars   []*Term // bound variables of the quantifier bodies being evaluated (for assumeQ)
	shared     map[string]bool
	sharedAt   map[*Object][][]int // shared fields havocked at a lock acquisition (exempt from the frame)
	retGhosts  map[string]EV
	tagTypes   map[string]types.Type
	implIfaces map[string]types.Type
	prog           *Program
	tb             *TB
	fn             *ssa.Function
	key            string
	contract       *Contract
	prop           string
	obls           []*Obligation
	nextObj        int
	nextFrame      int
	warnings       map[string]bool
	unmodelled     map[string]bool
	inlined        map[string]bool
	usedContracts  map[string]bool
	builtinModels  map[string]bool
	globals        map[*ssa.Global]*Object
	initState      *State
	paths          int
	returns        int
	covers         []*Obligation
	anteCovers     []*Obligation
	safetyOn       bool
	noOverread     bool
	maxPaths       int
	aborted        string
	typeTags       map[string]int64
	strIds         map[string]int64
	crcSnaps       []*crcSnap
	errIsFun       *FunDecl
	inputs         []NamedVal
	ghostDecl      map[string]types.Type
	dummyObj       *Object
	entryMem       map[*Object]*ObjState
	lockDiscipline bool
	funcIds        map[string]int64
	strContents    map[int]*Content
	guarded        map[string]bool
	structuralOn   bool
	bbInit         map[string]*bbGhost
	atomicInit     map[string]*Term
	mapInit        map[string]*Term
	freeVarNames   map[string]EV
	calleeFree     map[*Contract]map[string]EV
	findings       []*Finding
}

func NewExec(prog *Program, fn *ssa.Function, prop string) *Exec {
	x := &Exec{prog: prog, tb: NewTB(), fn: fn, prop: prop, warnings: map[string]bool{}, unmodelled: map[string]bool{},
		inlined: map[string]bool{}, usedContracts: map[string]bool{}, builtinModels: map[string]bool{},
		globals: map[*ssa.Global]*Object{}, typeTags: map[string]int64{}, strIds: map[string]int64{}, maxPaths: 20000}
	x.key = prog.FuncKey(fn)
	x.contract = prog.Contracts[x.key]
	return x
}

func (x *Exec) warn(f string, a ...interface{}) { x.warnings[fmt.Sprintf(f, a...)] = true }

func (x *Exec) newObject(name string, array bool, elem types.Type, pre bool) *Object {
	x.nextObj++
	return &Object{ID: x.nextObj, Name: name, Array: array, Elem: elem, Pre: pre}
}

func (x *Exec) typeTag(t types.Type) *Term {
	s := types.TypeString(t, nil)
	if b, ok := t.(*types.Basic); ok {
		// byte/rune are aliases of uint8/int32
		switch b.Kind() {
		case types.Uint8:
			s = "uint8"
		case types.Int32:
			s = "int32"
		}
	}
	if v, ok := x.typeTags[s]; ok {
		return x.tb.Intc(v)
	}
	v := int64(len(x.typeTags) + 1)
	x.typeTags[s] = v
	if x.tagTypes == nil {
		x.tagTypes = map[string]types.Type{}
	}
	x.tagTypes[s] = t
	return x.tb.Intc(v)
}

// implFacts: Go's typing facts tying dynamic type tags to interface satisfaction: for every interface asked about
// with implements(...) / a type switch and every concrete type that has a tag, implements.I(tag(T)) is known.
func (x *Exec) implFacts() []*Term {
	var out []*Term
	for _, it := range x.implIfaces {
		iface, ok := it.Underlying().(*types.Interface)
		if !ok {
			continue
		}
		f := x.tb.DeclareFun("implements."+sanitize(shortType(it)), []Sort{SInt}, SBool)
		for s, t := range x.tagTypes {
			if _, isI := t.Underlying().(*types.Interface); isI {
				continue
			}
			app := x.tb.App(f, x.tb.Intc(x.typeTags[s]))
			if types.Implements(t, iface) {
				out = append(out, app)
			} else {
				out = append(out, x.tb.Not(app))
			}
		}
	}
	return out
}

func (x *Exec) strConst(s string) *Term {
	if s == "" {
		return x.tb.Intc(0)
	}
	if v, ok := x.strIds[s]; ok {
		return x.tb.Intc(v)
	}
	v := int64(len(x.strIds) + 1)
	x.strIds[s] = v
	return x.tb.Intc(v)
}

// ---------- symbolic value construction ----------

const maxLenBits = 40 // input slices are assumed shorter than 2^40 elements (address-space fact)

func (x *Exec) zeroValue(t types.Type) SVal {
	tb := x.tb
	if s, ok := scalarSort(t); ok {
		switch s.K {
		case KBool:
			return tb.False()
		case KInt:
			return tb.Intc(0)
		default:
			return tb.BVi(s.W, 0)
		}
	}
	switch u := t.Underlying().(type) {
	case *types.Struct:
		sv := &StructV{T: t}
		for i := 0; i < u.NumFields(); i++ {
			sv.Fields = append(sv.Fields, x.zeroValue(u.Field(i).Type()))
		}
		return sv
	case *types.Slice:
		return x.nilSlice(u.Elem())
	case *types.Pointer:
		return &PtrV{IsNil: tb.True(), Obj: x.dummy(), Elem: u.Elem()}
	case *types.Interface:
		return &IfaceV{Tag: tb.Intc(0), Id: tb.Intc(0), Static: t}
	case *types.Signature:
		return &FuncV{IsNil: tb.True(), Id: tb.Intc(0), Sig: u}
	case *types.Array:
		av := &ArrayV{T: u, Leaves: map[string]*Content{}}
		leaves, _ := leafPaths(u.Elem())
		for _, l := range leaves {
			av.Leaves[l.Key] = x.ContentConst(x.zeroLeaf(l))
		}
		return av
	case *types.Map, *types.Chan:
		return &OpaqueV{T: t, Id: tb.Intc(0), IsNil: tb.True()}
	case *types.Tuple:
		tv := &TupleV{}
		for i := 0; i < u.Len(); i++ {
			tv.Vals = append(tv.Vals, x.zeroValue(u.At(i).Type()))
		}
		return tv
	}
	x.warn("zeroValue: unsupported type %s", t)
	return &OpaqueV{T: t, Id: tb.Intc(0), IsNil: tb.True()}
}

func (x *Exec) dummy() *Object {
	if x.dummyObj == nil {
		x.dummyObj = &Object{ID: 0, Name: "nil", Dummy: true}
	}
	return x.dummyObj
}

func (x *Exec) nilSlice(elem types.Type) *SliceV {
	tb := x.tb
	return &SliceV{Obj: x.dummy(), IsNil: tb.True(), Off: tb.BVi(64, 0), Len: tb.BVi(64, 0), Cap: tb.BVi(64, 0), Elem: elem}
}

// newArrayObject creates an array object with given contents generator.
func (x *Exec) newArrayObject(st *State, name string, elem types.Type, alen *Term, pre bool, zero bool) *Object {
	o := x.newObject(name, true, elem, pre)
	os := &ObjState{Leaves: map[string]*Content{}, ALen: alen}
	leaves, _ := leafPaths(elem)
	for _, l := range leaves {
		if zero {
			os.Leaves[l.Key] = x.ContentConst(x.zeroLeaf(l))
		} else {
			os.Leaves[l.Key] = x.ContentBase(name+l.Key, l.Sort)
		}
	}
	st.mem[o] = os
	x.makeNested(st, o, name, pre, zero, 0)
	return o
}

// makeNested creates the shared backing objects for slice-typed fields of the element type.
func (x *Exec) makeNested(st *State, o *Object, name string, pre, zero bool, depth int) {
	if o.Elem == nil || depth > 3 {
		return
	}
	for _, n := range nestedPaths(o.Elem) {
		if o.Nested == nil {
			o.Nested = map[string]*Object{}
		}
		no := x.newObject(name+n.Key+"[]", true, n.T.Elem(), pre)
		no.Global = o.Global
		nos := &ObjState{Leaves: map[string]*Content{}, ALen: x.tb.BVc(64, new(big.Int).Lsh(big.NewInt(1), 62))}
		leaves, _ := leafPaths(n.T.Elem())
		for _, l := range leaves {
			if zero {
				nos.Leaves[l.Key] = x.ContentConst(x.zeroLeaf(l))
			} else {
				nos.Leaves[l.Key] = x.ContentBase(name+n.Key+"[]"+l.Key, l.Sort)
			}
		}
		st.mem[no] = nos
		o.Nested[n.Key] = no
		x.makeNested(st, no, name+n.Key+"[]", pre, zero, depth+1)
	}
}

func (x *Exec) zeroLeaf(l leafInfo) *Term {
	switch l.Sort.K {
	case KBool:
		if strings.HasSuffix(l.Key, "#isnil") {
			return x.tb.True()
		}
		return x.tb.False()
	case KInt:
		return x.tb.Intc(0)
	}
	return x.tb.BVi(l.Sort.W, 0)
}

// ifaceBits returns the (bits, str) payload terms of an interface value, creating them on first use.
func (x *Exec) ifaceBits(iv *IfaceV) (*Term, *Term) {
	tb := x.tb
	if iv.Bits == nil {
		if t, ok := iv.Val.(*Term); ok && iv.Dyn != nil {
			switch t.sort.K {
			case KBool:
				iv.Bits = tb.Ite(t, tb.BVi(64, 1), tb.BVi(64, 0))
			case KBV:
				iv.Bits = tb.ZExt(64, t)
			default:
				iv.Bits = tb.BVi(64, 0)
			}
			if t.sort.K == KInt {
				iv.Str = t
			}
		} else {
			iv.Bits = tb.Fresh("iface.bits", BV(64))
		}
	}
	if iv.Str == nil {
		if iv.Dyn != nil {
			iv.Str = tb.Intc(0)
		} else {
			iv.Str = tb.Fresh("iface.str", SInt)
		}
	}
	return iv.Bits, iv.Str
}

func (x *Exec) symbolic(st *State, t types.Type, name string, pre bool, depth int) SVal {
	tb := x.tb
	if s, ok := scalarSort(t); ok {
		v := tb.Fresh(name, s)
		if isString(t) {
			st.Assume(tb.mk(">=", SBool, nil, "", v, tb.Intc(0)))
		}
		return v
	}
	switch u := t.Underlying().(type) {
	case *types.Struct:
		sv := &StructV{T: t}
		for i := 0; i < u.NumFields(); i++ {
			fv := x.symbolic(st, u.Field(i).Type(), name+"."+u.Field(i).Name(), pre, depth+1)
			if f, ok := fv.(*FuncV); ok {
				// function-valued fields are identified by their origin: <pkg>.<Type>.<field>
				if n, isNamed := t.(*types.Named); isNamed && n.Obj().Pkg() != nil {
					f.Name = shortPkg(n.Obj().Pkg().Path()) + "." + n.Obj().Name() + "." + u.Field(i).Name()
				}
			}
			sv.Fields = append(sv.Fields, fv)
		}
		return sv
	case *types.Slice:
		ln := tb.Fresh(name+".len", BV(64))
		cp := tb.Fresh(name+".cap", BV(64))
		isnil := tb.Fresh(name+".isnil", SBool)
		o := x.newArrayObject(st, name, u.Elem(), cp, pre, false)
		st.Assume(tb.BVCmp("bvsle", tb.BVi(64, 0), ln))
		st.Assume(tb.BVCmp("bvsle", ln, cp))
		st.Assume(tb.BVCmp("bvslt", cp, tb.BVc(64, new(big.Int).Lsh(big.NewInt(1), maxLenBits))))
		st.Assume(tb.Implies(isnil, tb.Eq(cp, tb.BVi(64, 0))))
		return &SliceV{Obj: o, IsNil: isnil, Off: tb.BVi(64, 0), Len: ln, Cap: cp, Elem: u.Elem()}
	case *types.Pointer:
		isnil := tb.Fresh(name+".isnil", SBool)
		o := x.newObject(name, false, u.Elem(), pre)
		if depth > 6 {
			st.mem[o] = &ObjState{Val: x.memInit(st, o, x.zeroValue(u.Elem()))}
		} else {
			st.mem[o] = &ObjState{Val: x.memInit(st, o, x.symbolic(st, u.Elem(), name+"^", pre, depth+1))}
		}
		return &PtrV{IsNil: isnil, Obj: o, Elem: u.Elem()}
	case *types.Interface:
		tag := tb.Fresh(name+".tag", SInt)
		id := tb.Fresh(name+".id", SInt)
		st.Assume(tb.mk(">=", SBool, nil, "", tag, tb.Intc(0)))
		return &IfaceV{Tag: tag, Id: id, Static: t, payloads: map[string]SVal{}, Name: name}
	case *types.Signature:
		return &FuncV{IsNil: tb.Fresh(name+".isnil", SBool), Id: tb.Fresh(name+".fid", SInt), Sig: u, Name: name}
	case *types.Array:
		av := &ArrayV{T: u, Leaves: map[string]*Content{}}
		leaves, _ := leafPaths(u.Elem())
		for _, l := range leaves {
			av.Leaves[l.Key] = x.ContentBase(name+l.Key, l.Sort)
		}
		return av
	case *types.Tuple:
		tv := &TupleV{}
		for i := 0; i < u.Len(); i++ {
			tv.Vals = append(tv.Vals, x.symbolic(st, u.At(i).Type(), fmt.Sprintf("%s.%d", name, i), pre, depth+1))
		}
		return tv
	}
	return &OpaqueV{T: t, Id: tb.Fresh(name+".oid", SInt), IsNil: tb.Fresh(name+".isnil", SBool)}
}

// ---------- obligations ----------

func (x *Exec) addObl(st *State, name, kind string, goal *Term, pos token.Pos, labels []string) *Obligation {
	o := &Obligation{Name: name, Kind: kind, Func: x.key, Labels: labels, Goal: goal, x: x, Inputs: x.inputs}
	o.Asserts = append([]*Term(nil), st.pc...)
	o.Asserts = append(o.Asserts, x.implFacts()...)
	if pos.IsValid() {
		p := x.prog.SSA.Fset.Position(pos)
		o.Pos = fmt.Sprintf("%s:%d", strings.TrimPrefix(p.Filename, x.prog.RepoDir+"/"), p.Line)
	}
	if goal.IsTrue() {
		o.Trivial = true
	}
	x.obls = append(x.obls, o)
	return o
}

// instantiationAid: a small saturation loop standing in for E-matching.  The quantified hypotheses and the negated
// goal are instantiated (positive occurrences only, so every instance is a consequence) at: the skolem constants of the
// goal, witnesses of hypothesis-side existentials, 0, and the points where one of their array reads f(arg(v)) meets a
// ground read f(t) of the goal or of an earlier instance.
func (x *Exec) instantiationAid(pc []*Term, goal *Term) []*Term {
	tb := x.tb
	var hyps []*Term
	ng := tb.Not(goal)
	for i := len(pc) - 1; i >= 0; i-- {
		if pc[i].hasQ {
			hyps = append(hyps, pc[i])
		}
	}
	if len(hyps) == 0 && !ng.hasQ {
		return nil
	}
	gsk := tb.Skolems(goal) // the goal's skolem constants: points for the hypotheses
	if len(gsk) > 6 {
		gsk = gsk[:6]
	}
	// witnesses of hypothesis-side existentials (and 0): points for the universals of the negated goal
	wit := []*Term{}
	if ng.hasQ {
		for _, w := range x.aidPoints(pc, tb.True()) {
			// witnesses of hypothesis-side existentials and CRC lemma indices (not the skolems of earlier goals)
			if len(wit) < 10 && (strings.Contains(w.name, "!wit") || strings.Contains(w.name, "!skf") || strings.HasPrefix(w.name, "crc.k")) {
				wit = append(wit, w)
			}
		}
		wit = append(wit, tb.BVi(64, 0))
	}
	apps := map[string][]*Term{}
	tb.GroundApps(goal, apps)
	// array reads in the most recent ground facts of the path (branch conditions of the loop body / callee results)
	for i, n := len(pc)-1, 0; i >= 0 && n < 40; i-- {
		if !pc[i].hasQ {
			tb.GroundApps(pc[i], apps)
			n++
		}
	}
	var out []*Term
	dbg := os.Getenv("GOVC_AIDTRACE") != "" && len(wit) > 0 && len(hyps) > 3
	for pass := 0; pass < 4; pass++ {
		if dbg {
			n := 0
			for _, v := range apps {
				n += len(v)
			}
			fmt.Fprintf(os.Stderr, "AID pass %d: gsk=%d wit=%d apps=%d\n", pass, len(gsk), len(wit), n)
			for _, w := range wit {
				fmt.Fprintf(os.Stderr, "   wit %s\n", tb.Show(w))
			}
		}
		out = out[:0]
		for _, f := range hyps {
			if in := tb.InstAll(f, gsk, apps, 3, 1); in != f {
				out = append(out, in)
			}
		}
		if ng.hasQ {
			if in := tb.InstAll(ng, wit, apps, 3, 1); in != ng {
				out = append(out, in)
			}
		}
		if pass == 3 {
			break
		}
		// witnesses and ground reads produced by this pass feed the next one
		grew := false
		have := map[int]bool{}
		for _, p := range wit {
			have[p.id] = true
		}
		for _, in := range out {
			w := tb.WeakenQ(in, 1)
			n0 := 0
			for _, v := range apps {
				n0 += len(v)
			}
			tb.GroundApps(w, apps)
			n1 := 0
			for _, v := range apps {
				n1 += len(v)
			}
			if n1 > n0 {
				grew = true
			}
			if ng.hasQ {
				for _, s := range tb.Skolems(w) {
					if !have[s.id] && (strings.Contains(s.name, "!skf") || strings.Contains(s.name, "!wit")) {
						have[s.id] = true
						wit = append(wit, s)
						grew = true
					}
				}
			}
		}
		if !grew {
			break
		}
		// keep the simplest witnesses (junk matches produce large difference terms)
		if len(wit) > 16 {
			sz := map[int]int{}
			for _, w := range wit {
				sz[w.id] = tb.size(w, 48)
			}
			sort.SliceStable(wit, func(i, j int) bool { return sz[wit[i].id] < sz[wit[j].id] })
			wit = wit[:16]
		}
	}
	return out
}

// assumeQ adds a definitional fact to the state; when it mentions variables bound by an enclosing quantifier of the
// expression being evaluated it is closed universally over them first.
func (x *Exec) assumeQ(st *State, t *Term) {
	if !t.hasBound {
		st.Assume(t)
		return
	}
	q := t
	for i := len(x.curBVars) - 1; i >= 0; i-- {
		if x.tb.mentions(q, x.curBVars[i]) {
			q = x.tb.Forall(x.curBVars[i], q)
		}
	}
	if q.hasBound {
		return // a bound variable that is not in scope: cannot be stated; dropping a fact is sound
	}
	mark := fmt.Sprintf("assumeQ:%d", q.id)
	if _, done := st.ghost[mark]; done {
		return
	}
	st.ghost[mark] = x.tb.True()
	st.Assume(q)
}

// keyIdx: index of a string key in the modelled map: injective (instance of the inverse added at every use), below 2^20.
func (x *Exec) keyIdx(st *State, key *Term) *Term {
	tb := x.tb
	f := tb.DeclareFun("map.keyidx", []Sort{SInt}, BV(64))
	inv := tb.DeclareFun("map.idxkey", []Sort{BV(64)}, SInt)
	idx := tb.App(f, key)
	x.assumeQ(st, tb.Eq(tb.App(inv, idx), key))
	x.assumeQ(st, tb.BVCmp("bvult", idx, tb.BVi(64, 1<<20)))
	return idx
}

// aidPoints: ground index terms at which quantified hypotheses are instantiated for the aided portfolio arm:
// the goal's skolem constants and the skolem indices of CRC frame-lemma instances on the path.
func (x *Exec) aidPoints(pc []*Term, goal *Term) []*Term {
	sks := x.tb.Skolems(goal)
	seen := map[int]bool{}
	for _, s := range sks {
		seen[s.id] = true
	}
	// witnesses of hypothesis-side existentials and CRC frame-lemma indices, most recent first
	for i := len(pc) - 1; i >= 0 && len(sks) < 60; i-- {
		a := pc[i]
		if a.hasQ {
			continue
		}
		for _, s := range x.tb.Skolems(a) {
			if !seen[s.id] && len(sks) < 60 {
				seen[s.id] = true
				sks = append(sks, s)
			}
		}
	}
	return sks
}

// snapshotObject records, the first time a pointer to a struct object is converted to an interface on a path, the
// scalar fields of that object as values of uninterpreted "snapshot" functions of the object identity:
// snap.T.f(id) == value.  Contracts read them back with snap(e, *T, f) even after the interface value has been
// stored in an array and the object itself is out of reach (ghost history; distinct objects have distinct identities).
func (x *Exec) snapshotObject(st *State, pv *PtrV) {
	if pv.Obj == nil || pv.Obj.Dummy || pv.Obj.Array || len(pv.Path) != 0 {
		return
	}
	if _, ok := structOf(pv.Elem); !ok {
		return
	}
	mark := fmt.Sprintf("snap:%d", pv.Obj.ID)
	if _, done := st.ghost[mark]; done {
		return
	}
	st.ghost[mark] = x.tb.True()
	os, ok := st.mem[pv.Obj]
	if !ok || os.Val == nil {
		return
	}
	leaves, _ := leafPaths(pv.Elem)
	for _, l := range leaves {
		if strings.Contains(l.Key, "#") {
			continue
		}
		v, isT := getPathSafe(os.Val, l.Path).(*Term)
		if !isT {
			continue
		}
		f := x.snapFun(pv.Elem, l.Key, l.Sort)
		st.Assume(x.tb.Implies(x.tb.Not(pv.IsNil), x.tb.Eq(x.tb.App(f, x.tb.Intc(int64(pv.Obj.ID))), v)))
	}
}

func (x *Exec) snapFun(t types.Type, key string, s Sort) *FunDecl {
	return x.tb.DeclareFun("snap."+types.TypeString(t, nil)+key, []Sort{SInt}, s)
}

func getPathSafe(v SVal, path []int) SVal {
	for _, i := range path {
		sv, ok := v.(*StructV)
		if !ok || i >= len(sv.Fields) {
			return nil
		}
		v = sv.Fields[i]
	}
	return v
}

// safety obligation: checked then assumed.
func (x *Exec) safety(st *State, fr *Frame, what string, goal *Term, pos token.Pos) {
	if x.safetyOn {
		name := fmt.Sprintf("%s/safety/%s", x.key, what)
		if fr != nil && !fr.top {
			name = fmt.Sprintf("%s/safety/%s@%s", x.key, what, x.prog.FuncKey(fr.fn))
		}
		o := x.addObl(st, name, "safety", goal, pos, nil)
		o.PanicObl = true
	}
	st.Assume(goal)
}

func (x *Exec) srcText(pos token.Pos) string {
	if !pos.IsValid() {
		return "?"
	}
	p := x.prog.SSA.Fset.Position(pos)
	return fmt.Sprintf("L%d", p.Line)
}

// ---------- memory access ----------

func (x *Exec) objState(st *State, o *Object) *ObjState {
	os, ok := st.mem[o]
	if !ok {
		panic(fmt.Sprintf("no state for %s", o))
	}
	return os
}

func getPath(v SVal, path []int) SVal {
	for _, i := range path {
		sv, ok := v.(*StructV)
		if !ok {
			panic(fmt.Sprintf("getPath: not a struct: %T", v))
		}
		v = sv.Fields[i]
	}
	return v
}

func setPath(v SVal, path []int, nv SVal) SVal {
	if len(path) == 0 {
		return nv
	}
	sv := v.(*StructV)
	c := &StructV{T: sv.T, Fields: append([]SVal(nil), sv.Fields...)}
	c.Fields[path[0]] = setPath(sv.Fields[path[0]], path[1:], nv)
	return c
}

// readElem reads element (or sub-path of element) of an array object at index idx.
func (x *Exec) readElem(st *State, o *Object, idx *Term, path []int, t types.Type) SVal {
	if o.Dummy {
		// read through a nil slice (only reachable in spec expressions under a false guard)
		return x.symbolic(st, t, "nilread", false, 3)
	}
	os := x.objState(st, o)
	if s, ok := scalarSort(t); ok {
		c := os.Leaves[pathKey(path)]
		if c == nil {
			x.warn("read of unmodelled leaf %s%s", o, pathKey(path))
			return x.tb.Fresh("havoc", s)
		}
		return x.Select(c, idx)
	}
	switch u := t.Underlying().(type) {
	case *types.Struct:
		sv := &StructV{T: t}
		for i := 0; i < u.NumFields(); i++ {
			sv.Fields = append(sv.Fields, x.readElem(st, o, idx, append(append([]int(nil), path...), i), u.Field(i).Type()))
		}
		return sv
	case *types.Slice:
		k := pathKey(path)
		if no := o.Nested[k]; no != nil && os.Leaves[k+"#len"] != nil {
			tb := x.tb
			ln, cp := x.Select(os.Leaves[k+"#len"], idx), x.Select(os.Leaves[k+"#cap"], idx)
			// well-formedness of every Go slice header, plus the modelling bound on nested slices (listed assumption)
			if idx.hasBound {
				// inside a quantifier: state the facts once, universally, for this version of the headers
				mark := fmt.Sprintf("nestwf:%d:%d", os.Leaves[k+"#len"].id, os.Leaves[k+"#cap"].id)
				if _, done := st.ghost[mark]; !done {
					st.ghost[mark] = tb.True()
					j := tb.BoundVar("nw", BV(64))
					lj, cj := x.Select(os.Leaves[k+"#len"], j), x.Select(os.Leaves[k+"#cap"], j)
					st.Assume(tb.Forall(j, tb.And(tb.BVCmp("bvsle", tb.BVi(64, 0), lj), tb.BVCmp("bvsle", lj, cj), tb.BVCmp("bvslt", cj, tb.BVi(64, 1<<(nestShift-1))))))
				}
			} else {
				st.Assume(tb.BVCmp("bvsle", tb.BVi(64, 0), ln))
				st.Assume(tb.BVCmp("bvsle", ln, cp))
				st.Assume(tb.BVCmp("bvslt", cp, tb.BVi(64, 1<<(nestShift-1))))
				st.Assume(tb.BVCmp("bvult", idx, tb.BVi(64, 1<<(62-nestShift))))
			}
			x.builtinModels[fmt.Sprintf("slices stored inside slice elements: shorter than 2^%d elements, container shorter than 2^%d; stored by copy-in (aliasing with the source array is not tracked)", nestShift-1, 62-nestShift)] = true
			return &SliceV{Obj: no, IsNil: x.Select(os.Leaves[k+"#isnil"], idx), Off: tb.BVBin("bvshl", idx, tb.BVi(64, nestShift)), Len: ln, Cap: cp, Elem: u.Elem()}
		}
	case *types.Interface:
		k := pathKey(path)
		if ct := os.Leaves[k+"#tag"]; ct != nil {
			return &IfaceV{Tag: x.Select(ct, idx), Id: x.Select(os.Leaves[k+"#id"], idx), Bits: x.Select(os.Leaves[k+"#bits"], idx), Str: x.Select(os.Leaves[k+"#str"], idx),
				Static: t, payloads: map[string]SVal{}, Name: o.Name + k}
		}
	}
	// non-scalar leaf inside array element: kept only for concrete indices
	if idx.IsConst() {
		if v, ok := os.Cells[idx.val.String()+"/"+pathKey(path)]; ok {
			return v
		}
	}
	x.warn("array element leaf of type %s is havocked on read", t)
	return x.symbolic(st, t, "havocleaf", false, 3)
}

func (x *Exec) writeElem(st *State, o *Object, idx *Term, path []int, t types.Type, v SVal) {
	if o.Dummy {
		return
	}
	os := x.objState(st, o)
	n := &ObjState{Leaves: map[string]*Content{}, ALen: os.ALen, Cells: os.Cells}
	for k, c := range os.Leaves {
		n.Leaves[k] = c
	}
	var rec func(path []int, t types.Type, v SVal)
	rec = func(path []int, t types.Type, v SVal) {
		if _, ok := scalarSort(t); ok {
			k := pathKey(path)
			if c := n.Leaves[k]; c != nil {
				n.Leaves[k] = x.StoreC(c, idx, v.(*Term))
			}
			return
		}
		if u, ok := t.Underlying().(*types.Struct); ok {
			sv := v.(*StructV)
			for i := 0; i < u.NumFields(); i++ {
				rec(append(append([]int(nil), path...), i), u.Field(i).Type(), sv.Fields[i])
			}
			return
		}
		if _, ok := t.Underlying().(*types.Slice); ok {
			k := pathKey(path)
			if sv, isS := v.(*SliceV); isS && o.Nested[k] != nil && n.Leaves[k+"#len"] != nil {
				tb := x.tb
				n.Leaves[k+"#len"] = x.StoreC(n.Leaves[k+"#len"], idx, sv.Len)
				n.Leaves[k+"#cap"] = x.StoreC(n.Leaves[k+"#cap"], idx, sv.Cap)
				n.Leaves[k+"#isnil"] = x.StoreC(n.Leaves[k+"#isnil"], idx, sv.IsNil)
				base := tb.BVBin("bvshl", idx, tb.BVi(64, nestShift))
				if !(sv.Obj == o.Nested[k] && sv.Off == base) && !sv.Obj.Dummy {
					// copy-in of the cells
					x.copyCells(st, &SliceV{Obj: o.Nested[k], Off: base, Len: sv.Len}, sv, sv.Len)
				}
				return
			}
		}
		if _, ok := t.Underlying().(*types.Interface); ok {
			if iv, isI := v.(*IfaceV); isI {
				k := pathKey(path)
				if c := n.Leaves[k+"#tag"]; c != nil {
					bits, str := x.ifaceBits(iv)
					n.Leaves[k+"#tag"] = x.StoreC(c, idx, iv.Tag)
					n.Leaves[k+"#id"] = x.StoreC(n.Leaves[k+"#id"], idx, iv.Id)
					n.Leaves[k+"#bits"] = x.StoreC(n.Leaves[k+"#bits"], idx, bits)
					n.Leaves[k+"#str"] = x.StoreC(n.Leaves[k+"#str"], idx, str)
					return
				}
			}
		}
		if idx.IsConst() {
			cells := map[string]SVal{}
			for k, c := range n.Cells {
				cells[k] = c
			}
			cells[idx.val.String()+"/"+pathKey(path)] = v
			n.Cells = cells
			return
		}
		x.warn("write of non-scalar array element leaf of type %s at a symbolic index dropped", t)
	}
	rec(path, t, v)
	st.mem[o] = n
}

// memInit converts array values inside v into ArrayRefs to fresh sub-objects (memory representation).
func (x *Exec) memInit(st *State, owner *Object, v SVal) SVal {
	switch t := v.(type) {
	case *ArrayV:
		o := x.newObject(owner.Name+".arr", true, t.T.Elem(), owner.Pre)
		o.Global = owner.Global
		leaves := map[string]*Content{}
		for k, c := range t.Leaves {
			leaves[k] = c
		}
		st.mem[o] = &ObjState{Leaves: leaves, ALen: x.tb.BVi(64, t.T.Len())}
		return &ArrayRef{Obj: o, T: t.T}
	case *StructV:
		n := &StructV{T: t.T, Fields: make([]SVal, len(t.Fields))}
		for i, f := range t.Fields {
			n.Fields[i] = x.memInit(st, owner, f)
		}
		return n
	}
	return v
}

// memToValue converts the memory representation back to a value (ArrayRef -> ArrayV snapshot).
func (x *Exec) memToValue(st *State, v SVal) SVal {
	switch t := v.(type) {
	case *ArrayRef:
		av := &ArrayV{T: t.T, Leaves: map[string]*Content{}}
		for k, c := range x.objState(st, t.Obj).Leaves {
			av.Leaves[k] = c
		}
		return av
	case *StructV:
		has := false
		var walk func(s SVal)
		walk = func(s SVal) {
			switch u := s.(type) {
			case *ArrayRef:
				has = true
			case *StructV:
				for _, f := range u.Fields {
					walk(f)
				}
			}
		}
		walk(t)
		if !has {
			return t
		}
		n := &StructV{T: t.T, Fields: make([]SVal, len(t.Fields))}
		for i, f := range t.Fields {
			n.Fields[i] = x.memToValue(st, f)
		}
		return n
	}
	return v
}

// memStore writes value v over the memory subtree cur (keeping ArrayRefs, overwriting their cells).
func (x *Exec) memStore(st *State, owner *Object, cur, v SVal) SVal {
	switch c := cur.(type) {
	case *ArrayRef:
		if av, ok := v.(*ArrayV); ok {
			leaves := map[string]*Content{}
			for k, ct := range av.Leaves {
				leaves[k] = ct
			}
			st.mem[c.Obj] = &ObjState{Leaves: leaves, ALen: x.tb.BVi(64, c.T.Len())}
			return c
		}
		return c
	case *StructV:
		if sv, ok := v.(*StructV); ok && len(sv.Fields) == len(c.Fields) {
			n := &StructV{T: sv.T, Fields: make([]SVal, len(sv.Fields))}
			for i := range sv.Fields {
				n.Fields[i] = x.memStore(st, owner, c.Fields[i], sv.Fields[i])
			}
			return n
		}
	}
	return x.memInit(st, owner, v)
}

// arrayField resolves a pointer to an array-typed location inside a single object to its cell object.
func (x *Exec) arrayField(st *State, p *PtrV) (*Object, *Term) {
	if p.Obj.Array {
		idx := p.Idx
		if idx == nil {
			idx = x.tb.BVi(64, 0)
		}
		return p.Obj, idx
	}
	if p.Obj.Dummy {
		return p.Obj, x.tb.BVi(64, 0)
	}
	ref, ok := getPath(x.objState(st, p.Obj).Val, p.Path).(*ArrayRef)
	if !ok {
		panic(fmt.Sprintf("arrayField: %s%s is not an array location", p.Obj, pathKey(p.Path)))
	}
	return ref.Obj, x.tb.BVi(64, 0)
}

func (x *Exec) load(st *State, p *PtrV, t types.Type) SVal {
	if p.Obj.Dummy {
		return x.zeroValue(t)
	}
	if p.Obj.Array {
		if at, ok := t.Underlying().(*types.Array); ok && len(p.Path) == 0 {
			// loading a whole array value through pointer to array object
			os := x.objState(st, p.Obj)
			av := &ArrayV{T: at, Leaves: map[string]*Content{}}
			for k, c := range os.Leaves {
				av.Leaves[k] = c
			}
			_ = p.Idx
			return av
		}
		return x.readElem(st, p.Obj, p.Idx, p.Path, t)
	}
	os := x.objState(st, p.Obj)
	return x.memToValue(st, getPath(os.Val, p.Path))
}

func (x *Exec) store(st *State, p *PtrV, t types.Type, v SVal) {
	if p.Obj.Dummy {
		return
	}
	if p.Obj.Array {
		if av, ok := v.(*ArrayV); ok && len(p.Path) == 0 {
			os := x.objState(st, p.Obj)
			n := &ObjState{Leaves: map[string]*Content{}, ALen: os.ALen}
			for k, c := range av.Leaves {
				n.Leaves[k] = c
			}
			st.mem[p.Obj] = n
			return
		}
		x.writeElem(st, p.Obj, p.Idx, p.Path, t, v)
		return
	}
	os := x.objState(st, p.Obj)
	st.mem[p.Obj] = &ObjState{Val: setPath(os.Val, p.Path, x.memStore(st, p.Obj, getPath(os.Val, p.Path), v))}
}

// ---------- running ----------

type cont func(st *State, results []SVal)

func (x *Exec) newFrame(fn *ssa.Function, params []SVal, depth int, top bool) *Frame {
	x.nextFrame++
	fr := &Frame{id: x.nextFrame, fn: fn, env: map[ssa.Value]SVal{}, params: params, depth: depth, top: top,
		headers: map[*ssa.BasicBlock]int{}, loopPre: map[int]map[*Object]*ObjState{}, ghostLocal: map[string]SVal{}}
	for i, p := range fn.Params {
		fr.env[p] = params[i]
	}
	// loop headers: blocks with a predecessor they dominate
	n := 0
	for _, b := range fn.Blocks {
		for _, p := range b.Preds {
			if b.Dominates(p) {
				fr.headers[b] = n
				n++
				break
			}
		}
	}
	return fr
}

func (x *Exec) value(fr *Frame, st *State, v ssa.Value) SVal {
	switch c := v.(type) {
	case *ssa.Const:
		return x.constVal(c)
	case *ssa.Global:
		return &PtrV{IsNil: x.tb.False(), Obj: x.globalObj(st, c), Elem: c.Type().(*types.Pointer).Elem()}
	case *ssa.Function:
		return &FuncV{Fn: c, IsNil: x.tb.False(), Id: x.funcId(c.String()), Sig: c.Signature, Name: c.String()}
	case *ssa.Builtin:
		return &FuncV{Fn: c, IsNil: x.tb.False(), Name: c.Name()}
	}
	if r, ok := fr.env[v]; ok {
		return r
	}
	panic(fmt.Sprintf("value not in env: %s = %s in %s", v.Name(), v.String(), fr.fn.Name()))
}

func (x *Exec) constVal(c *ssa.Const) SVal {
	tb := x.tb
	t := c.Type()
	if c.Value == nil {
		return x.zeroValue(t)
	}
	if w, _, ok := isInteger(t); ok {
		v, _ := new(big.Int).SetString(c.Value.ExactString(), 10)
		if v == nil {
			iv, _ := constant.Int64Val(constant.ToInt(c.Value))
			v = big.NewInt(iv)
		}
		return tb.BVc(w, v)
	}
	if isBool(t) {
		return tb.Bool(constant.BoolVal(c.Value))
	}
	if isString(t) {
		return x.strConst(constant.StringVal(c.Value))
	}
	if w, ok := isFloat(t); ok {
		f, _ := constant.Float64Val(c.Value)
		if w == 64 {
			return tb.BVc(64, new(big.Int).SetUint64(float64bits(f)))
		}
		return tb.BVc(32, new(big.Int).SetUint64(uint64(float32bits(float32(f)))))
	}
	x.warn("unsupported constant %s", c)
	return x.zeroValue(t)
}

func (x *Exec) globalObj(st *State, g *ssa.Global) *Object {
	if o, ok := x.globals[g]; ok {
		if _, has := st.mem[o]; !has {
			// global of a foreign package, lazily created in another path's state
			st.mem[o] = x.initState.mem[o]
		}
		return o
	}
	elem := g.Type().(*types.Pointer).Elem()
	o := x.newObject(g.Name(), false, elem, true)
	o.Global = true
	if at, ok := elem.Underlying().(*types.Array); ok {
		o.Array = true
		o.Elem = at.Elem()
	}
	x.globals[g] = o
	// foreign globals (other packages): symbolic but fixed
	var os *ObjState
	tmp := &State{mem: map[*Object]*ObjState{}, ghost: map[string]SVal{}, cuts: map[string]bool{}}
	if o.Array {
		x.newArrayObjectInto(tmp, o, g.Name())
		os = tmp.mem[o]
	} else {
		os = &ObjState{Val: x.memInit(tmp, o, x.symbolic(tmp, elem, "G."+g.Pkg.Pkg.Name()+"."+g.Name(), true, 0))}
		// sentinel error globals: non-nil, distinct identity
		if iv, ok := os.Val.(*IfaceV); ok {
			id := int64(500000 + len(x.globals))
			iv.Tag = x.tb.Intc(id)
			iv.Id = x.tb.Intc(id)
		}
	}
	for ob, s := range tmp.mem {
		if ob != o {
			x.initState.mem[ob] = s
			st.mem[ob] = s
		}
	}
	x.initState.pc = append(x.initState.pc, tmp.pc...)
	st.pc = append(st.pc, tmp.pc...)
	x.initState.mem[o] = os
	st.mem[o] = os
	return o
}

func (x *Exec) newArrayObjectInto(st *State, o *Object, name string) {
	os := &ObjState{Leaves: map[string]*Content{}, ALen: x.tb.BVi(64, 0)}
	leaves, _ := leafPaths(o.Elem)
	for _, l := range leaves {
		os.Leaves[l.Key] = x.ContentBase(name+l.Key, l.Sort)
	}
	st.mem[o] = os
	x.makeNested(st, o, name, o.Pre, false, 0)
}

const maxUnroll = 64

// constBoundLoop: the header ends in `if i < C` / `if i+1 < C` over a phi of the header, with a constant C <= maxUnroll.
func constBoundLoop(b *ssa.BasicBlock) bool {
	if len(b.Instrs) == 0 {
		return false
	}
	ifi, ok := b.Instrs[len(b.Instrs)-1].(*ssa.If)
	if !ok {
		return false
	}
	cmp, ok := ifi.Cond.(*ssa.BinOp)
	if !ok || cmp.Op != token.LSS {
		return false
	}
	c, ok := cmp.Y.(*ssa.Const)
	if !ok || c.Value == nil || c.Int64() < 0 || c.Int64() > maxUnroll {
		return false
	}
	isPhi := func(v ssa.Value) bool {
		p, ok := v.(*ssa.Phi)
		return ok && p.Block() == b
	}
	if isPhi(cmp.X) {
		p := cmp.X.(*ssa.Phi)
		// counting loop: edges 0-ish constant and phi+1
		for _, e := range p.Edges {
			if bo, isB := e.(*ssa.BinOp); isB && bo.Op == token.ADD && bo.X == p {
				if k, isC := bo.Y.(*ssa.Const); isC && k.Value != nil && k.Int64() == 1 {
					for _, e2 := range p.Edges {
						if k2, isC2 := e2.(*ssa.Const); isC2 && k2.Value != nil && k2.Int64() >= 0 {
							return true
						}
					}
				}
			}
		}
		return false
	}
	if bo, isB := cmp.X.(*ssa.BinOp); isB && bo.Op == token.ADD && isPhi(bo.X) && bo.Block() == b {
		if k, isC := bo.Y.(*ssa.Const); isC && k.Value != nil && k.Int64() == 1 {
			p := bo.X.(*ssa.Phi)
			for _, e := range p.Edges {
				if k2, isC2 := e.(*ssa.Const); isC2 && k2.Value != nil && k2.Int64() >= -1 {
					return true
				}
			}
		}
	}
	return false
}

func (x *Exec) runBlock(fr *Frame, b *ssa.BasicBlock, pred *ssa.BasicBlock, st *State, k cont) {
	if x.aborted != "" {
		return
	}
	// phi values from pred
	phiVals := map[*ssa.Phi]SVal{}
	if pred != nil {
		pi := -1
		for i, p := range b.Preds {
			if p == pred {
				pi = i
				break
			}
		}
		for _, ins := range b.Instrs {
			phi, ok := ins.(*ssa.Phi)
			if !ok {
				break
			}
			phiVals[phi] = x.value(fr, st, phi.Edges[pi])
		}
	}
	if ord, isHeader := fr.headers[b]; isHeader && x.loopContract(fr, ord) == nil && constBoundLoop(b) {
		// a loop without a loop contract whose trip count is a compile-time constant (range over an array, counting
		// loop to a constant): unrolled path-wise instead of cut, so a loop moved into a new helper function, or a small
		// new constant loop, needs no invariant.  Exact; the visit bound only guards the engine.
		key := fmt.Sprintf("%d:%d", fr.id, b.Index)
		if st.visits == nil {
			st.visits = map[string]int{}
		}
		st.visits[key]++
		if st.visits[key] > maxUnroll+1 {
			x.aborted = fmt.Sprintf("%s: loop %d has no invariant and did not exit within %d unrolled iterations", fr.fn.Name(), ord, maxUnroll)
			return
		}
		fr.unrolling = true
		for phi, v := range phiVals {
			fr.env[phi] = v
		}
	} else if ord, isHeader := fr.headers[b]; isHeader {
		key := fmt.Sprintf("%d:%d", fr.id, b.Index)
		lc := x.loopContract(fr, ord)
		if st.cuts[key] {
			// back edge: prove invariants preserved, end path (phi bindings restored afterwards:
			// sibling paths still need the header values)
			saved := map[*ssa.Phi]SVal{}
			for phi, v := range phiVals {
				saved[phi] = fr.env[phi]
				fr.env[phi] = v
			}
			x.checkInvariants(fr, b, ord, lc, st, "preserve")
			x.checkLoopFrame(fr, b, ord, lc, st)
			for phi, v := range saved {
				fr.env[phi] = v
			}
			return
		}
		// entry: prove invariants initially
		for phi, v := range phiVals {
			fr.env[phi] = v
		}
		x.loopGhostInit(fr, b, ord, lc, st)
		x.checkInvariants(fr, b, ord, lc, st, "init")
		// havoc phis
		for _, ins := range b.Instrs {
			phi, ok := ins.(*ssa.Phi)
			if !ok {
				break
			}
			nm := phi.Comment
			if nm == "" {
				nm = phi.Name()
			}
			fr.env[phi] = x.symbolic(st, phi.Type(), fmt.Sprintf("%s.%s!L%d", fr.fn.Name(), nm, ord), false, 0)
			if _, isSlice := phi.Type().Underlying().(*types.Slice); isSlice {
				// a loop-carried slice keeps non-nil-ness unknown; fine
			}
		}
		x.havocLoopMem(fr, b, ord, lc, st)
		if lc != nil && lc.Forget {
			// forget also the layered history of array contents: every array object gets fresh base contents
			// (weakening; ground facts about single objects are kept, what the body needs about arrays is in the invariants)
			for o, os := range st.mem {
				if !o.Array || os.Leaves == nil || o.Global {
					continue
				}
				dirty := false
				for _, c := range os.Leaves {
					if c.Kind != cBase {
						dirty = true
					}
				}
				if !dirty {
					continue
				}
				n := &ObjState{Leaves: map[string]*Content{}, ALen: os.ALen, Cells: os.Cells}
				for k, c := range os.Leaves {
					if c.Kind == cBase {
						n.Leaves[k] = c
					} else {
						n.Leaves[k] = x.ContentBase(fmt.Sprintf("fg%d.%s%s", ord, o.Name, k), c.Sort)
					}
				}
				st.mem[o] = n
			}
		}
		st.cuts[key] = true
		snap := map[*Object]*ObjState{}
		for o, s := range st.mem {
			snap[o] = s
		}
		fr.loopPre[ord] = snap
		gsnap := map[string]SVal{}
		for k, v := range st.ghost {
			gsnap[k] = v
		}
		if fr.loopGhostPre == nil {
			fr.loopGhostPre = map[int]map[string]SVal{}
		}
		fr.loopGhostPre[ord] = gsnap
		if lc != nil && lc.Forget {
			// weakening: quantified facts from before the loop are dropped; the invariants must carry what the body needs
			var keep []*Term
			for _, a := range st.pc {
				if !a.hasQ || st.keep[a.id] {
					keep = append(keep, a)
				}
			}
			st.pc = keep
		}
		x.assumeInvariants(fr, b, ord, lc, st)
	} else {
		for phi, v := range phiVals {
			fr.env[phi] = v
		}
	}
	// skip phis
	i := 0
	for i < len(b.Instrs) {
		if _, ok := b.Instrs[i].(*ssa.Phi); !ok {
			break
		}
		i++
	}
	x.runInstrs(fr, b, i, st, k)
}

func (x *Exec) runInstrs(fr *Frame, b *ssa.BasicBlock, i int, st *State, k cont) {
	for ; i < len(b.Instrs); i++ {
		if x.aborted != "" {
			return
		}
		ins := b.Instrs[i]
		switch v := ins.(type) {
		case *ssa.DebugRef:
			continue
		case *ssa.If:
			c := x.value(fr, st, v.Cond).(*Term)
			if c.IsTrue() {
				x.runBlock(fr, b.Succs[0], b, st, k)
				return
			}
			if c.IsFalse() {
				x.runBlock(fr, b.Succs[1], b, st, k)
				return
			}
			st2 := st.Clone()
			st.Assume(c)
			var envSnap map[ssa.Value]SVal
			if fr.unrolling {
				// inside an unrolled loop blocks are executed more than once per path: the first branch may overwrite
				// values the second one still needs
				envSnap = make(map[ssa.Value]SVal, len(fr.env))
				for kk, vv := range fr.env {
					envSnap[kk] = vv
				}
			}
			x.runBlock(fr, b.Succs[0], b, st, k)
			if envSnap != nil {
				for kk := range fr.env {
					if _, had := envSnap[kk]; !had {
						delete(fr.env, kk)
					}
				}
				for kk, vv := range envSnap {
					fr.env[kk] = vv
				}
			}
			st2.Assume(x.tb.Not(c))
			x.runBlock(fr, b.Succs[1], b, st2, k)
			return
		case *ssa.Jump:
			x.runBlock(fr, b.Succs[0], b, st, k)
			return
		case *ssa.Return:
			var res []SVal
			for _, r := range v.Results {
				res = append(res, x.value(fr, st, r))
			}
			k(st, res)
			return
		case *ssa.Panic:
			x.safety(st, fr, "panic("+x.srcText(v.Pos())+")", x.tb.False(), v.Pos())
			return
		case *ssa.Call:
			idx := i
			x.doCall(fr, st, v, v.Common(), func(st2 *State, res SVal) {
				if res != nil {
					fr.env[v] = res
				}
				x.runInstrs(fr, b, idx+1, st2, k)
			})
			return
		case *ssa.Defer:
			st.defers = append(st.defers, deferred{call: v, fr: fr})
			if fr.top && x.structuralOn && !fr.sawDefer {
				// structural obligation (C16/C17): the first deferred function of a goroutine body recovers panics
				fr.sawDefer = true
				ok := false
				var target *ssa.Function
				switch cv := v.Call.Value.(type) {
				case *ssa.MakeClosure:
					target, _ = cv.Fn.(*ssa.Function)
				case *ssa.Function:
					target = cv
				}
				if target != nil && len(target.Blocks) > 0 {
					for _, ins := range target.Blocks[0].Instrs {
						if _, isDbg := ins.(*ssa.DebugRef); isDbg {
							continue
						}
						if call, isCall := ins.(*ssa.Call); isCall {
							if b, isB := call.Call.Value.(*ssa.Builtin); isB && b.Name() == "recover" {
								ok = true
							}
						}
						break
					}
				}
				x.addObl(st, fmt.Sprintf("%s/structural/first-deferred-function-recovers", x.key), "structural", x.tb.Bool(ok), v.Pos(), nil)
			}
			continue
		case *ssa.Go:
			x.warn("go statement: spawned function not executed here (opaque spawn)")
			st.events = append(st.events, "go")
			if sp, ok := st.ghost["spawned"]; ok {
				st.ghost["spawned"] = x.tb.BVBin("bvadd", sp.(*Term), x.tb.BVi(64, 1))
				x.ghostBound(st, "spawned")
			}
			continue
		case *ssa.RunDefers:
			idx := i
			x.runDefers(fr, st, func(st2 *State) {
				x.runInstrs(fr, b, idx+1, st2, k)
			})
			return
		case *ssa.TypeAssert:
			idx := i
			x.typeAssert(fr, st, v, func(st2 *State, res SVal) {
				fr.env[v] = res
				x.runInstrs(fr, b, idx+1, st2, k)
			})
			return
		case *ssa.Select:
			idx := i
			x.doSelect(fr, st, v, func(st2 *State, res SVal) {
				fr.env[v] = res
				x.runInstrs(fr, b, idx+1, st2, k)
			})
			return
		default:
			if !x.step(fr, st, ins) {
				return
			}
		}
	}
}

// step executes a straight-line instruction; returns false if the path ends.
func (x *Exec) step(fr *Frame, st *State, ins ssa.Instruction) bool {
	tb := x.tb
	switch v := ins.(type) {
	case *ssa.Alloc:
		elem := v.Type().(*types.Pointer).Elem()
		name := v.Comment
		if name == "" {
			name = v.Name()
		}
		name = fr.fn.Name() + "." + name
		if at, ok := elem.Underlying().(*types.Array); ok {
			o := x.newArrayObject(st, name, at.Elem(), tb.BVi(64, at.Len()), false, true)
			fr.env[v] = &PtrV{IsNil: tb.False(), Obj: o, Idx: tb.BVi(64, 0), Elem: elem}
		} else {
			o := x.newObject(name, false, elem, false)
			st.mem[o] = &ObjState{Val: x.memInit(st, o, x.zeroValue(elem))}
			fr.env[v] = &PtrV{IsNil: tb.False(), Obj: o, Elem: elem}
		}
	case *ssa.FieldAddr:
		p := x.value(fr, st, v.X).(*PtrV)
		x.safety(st, fr, "nil("+x.srcText(v.Pos())+")", tb.Not(p.IsNil), v.Pos())
		st2 := p.Elem.Underlying().(*types.Struct)
		if x.lockDiscipline && x.guarded[st2.Field(v.Field).Name()] && fr.depth <= 1 {
			// guarded-by: this field may only be touched with the mutex held exclusively
			cur, has := st.ghost["muState"]
			if !has {
				cur = tb.BVi(8, 0)
			}
			x.lockObl(st, fr, "guarded("+st2.Field(v.Field).Name()+"@"+x.srcText(v.Pos())+")", tb.Eq(cur.(*Term), tb.BVi(8, 2)), v.Pos())
		}
		np := &PtrV{IsNil: tb.False(), Obj: p.Obj, Idx: p.Idx, Path: append(append([]int(nil), p.Path...), v.Field), Elem: st2.Field(v.Field).Type()}
		fr.env[v] = np
	case *ssa.Field:
		sv := x.value(fr, st, v.X).(*StructV)
		fr.env[v] = sv.Fields[v.Field]
	case *ssa.IndexAddr:
		base := x.value(fr, st, v.X)
		idx := x.toInt64(x.value(fr, st, v.Index).(*Term), v.Index.Type())
		switch bv := base.(type) {
		case *SliceV:
			x.safety(st, fr, "index("+x.srcText(v.Pos())+")", tb.And(tb.BVCmp("bvsle", tb.BVi(64, 0), idx), tb.BVCmp("bvslt", idx, bv.Len)), v.Pos())
			fr.env[v] = &PtrV{IsNil: tb.False(), Obj: bv.Obj, Idx: tb.BVBin("bvadd", bv.Off, idx), Elem: bv.Elem}
		case *PtrV: // pointer to array
			at := bv.Elem.Underlying().(*types.Array)
			x.safety(st, fr, "nil("+x.srcText(v.Pos())+")", tb.Not(bv.IsNil), v.Pos())
			x.safety(st, fr, "index("+x.srcText(v.Pos())+")", tb.And(tb.BVCmp("bvsle", tb.BVi(64, 0), idx), tb.BVCmp("bvslt", idx, tb.BVi(64, at.Len()))), v.Pos())
			aobj, base := x.arrayField(st, bv)
			fr.env[v] = &PtrV{IsNil: tb.False(), Obj: aobj, Idx: tb.BVBin("bvadd", base, idx), Elem: at.Elem()}
		default:
			panic(fmt.Sprintf("IndexAddr on %T", base))
		}
	case *ssa.Index:
		base := x.value(fr, st, v.X)
		idx := x.toInt64(x.value(fr, st, v.Index).(*Term), v.Index.Type())
		switch bv := base.(type) {
		case *ArrayV:
			x.safety(st, fr, "index("+x.srcText(v.Pos())+")", tb.And(tb.BVCmp("bvsle", tb.BVi(64, 0), idx), tb.BVCmp("bvslt", idx, tb.BVi(64, bv.T.Len()))), v.Pos())
			if _, ok := scalarSort(bv.T.Elem()); ok {
				fr.env[v] = x.Select(bv.Leaves[""], idx)
			} else {
				x.warn("Index of non-scalar array value")
				fr.env[v] = x.symbolic(st, bv.T.Elem(), "idx", false, 0)
			}
		default:
			x.warn("Index on %T (string indexing?) havocked", base)
			fr.env[v] = x.symbolic(st, v.Type(), "idx", false, 0)
		}
	case *ssa.UnOp:
		x.unop(fr, st, v)
	case *ssa.BinOp:
		fr.env[v] = x.binop(fr, st, v.Op, x.value(fr, st, v.X), x.value(fr, st, v.Y), v.X.Type(), v.Y.Type(), v.Pos())
	case *ssa.Store:
		p := x.value(fr, st, v.Addr).(*PtrV)
		x.safety(st, fr, "nil("+x.srcText(v.Pos())+")", tb.Not(p.IsNil), v.Pos())
		x.store(st, p, v.Val.Type(), x.value(fr, st, v.Val))
	case *ssa.Convert:
		fr.env[v] = x.convert(st, x.value(fr, st, v.X), v.X.Type(), v.Type())
	case *ssa.ChangeType:
		fr.env[v] = x.value(fr, st, v.X)
	case *ssa.ChangeInterface:
		fr.env[v] = x.value(fr, st, v.X)
	case *ssa.MakeInterface:
		val := x.value(fr, st, v.X)
		iv := &IfaceV{Dyn: v.X.Type(), Val: val, Tag: x.typeTag(v.X.Type()), Static: v.Type()}
		switch pv := val.(type) {
		case *PtrV:
			// typed nil pointers keep a non-zero tag
			iv.Id = tb.Ite(pv.IsNil, tb.Intc(0), tb.Intc(int64(pv.Obj.ID)))
			x.snapshotObject(st, pv)
		case *Term:
			iv.Id = tb.Intc(1) // scalar payloads are compared by value (bits/str), not by identity
			x.ifaceBits(iv)
		default:
			iv.Id = tb.Fresh("ifaceid", SInt)
		}
		fr.env[v] = iv
	case *ssa.Slice:
		x.sliceOp(fr, st, v)
	case *ssa.MakeSlice:
		ln := x.toInt64(x.value(fr, st, v.Len).(*Term), v.Len.Type())
		cp := x.toInt64(x.value(fr, st, v.Cap).(*Term), v.Cap.Type())
		x.safety(st, fr, "makeslice("+x.srcText(v.Pos())+")", tb.And(tb.BVCmp("bvsle", tb.BVi(64, 0), ln), tb.BVCmp("bvsle", ln, cp),
			tb.BVCmp("bvslt", cp, tb.BVc(64, new(big.Int).Lsh(big.NewInt(1), maxLenBits)))), v.Pos())
		elem := v.Type().Underlying().(*types.Slice).Elem()
		o := x.newArrayObject(st, fr.fn.Name()+".make."+v.Name(), elem, cp, false, true)
		fr.env[v] = &SliceV{Obj: o, IsNil: tb.False(), Off: tb.BVi(64, 0), Len: ln, Cap: cp, Elem: elem}
	case *ssa.Extract:
		tv := x.value(fr, st, v.Tuple).(*TupleV)
		fr.env[v] = tv.Vals[v.Index]
	case *ssa.MakeClosure:
		fn := v.Fn.(*ssa.Function)
		var binds []SVal
		for _, b := range v.Bindings {
			binds = append(binds, x.value(fr, st, b))
		}
		fr.env[v] = &FuncV{Fn: fn, Binds: binds, IsNil: tb.False(), Id: tb.Intc(int64(2000 + x.nextObj)), Sig: fn.Signature, Name: fn.String()}
	case *ssa.MakeMap, *ssa.MakeChan:
		if mm, isMap := v.(*ssa.MakeMap); isMap {
			if mt, ok := mm.Type().Underlying().(*types.Map); ok && isString(mt.Key()) {
				if _, okLeaves := leafPaths(mt.Elem()); okLeaves {
					if _, isStruct := structOf(mt.Elem()); isStruct {
						o := x.newArrayObject(st, fr.fn.Name()+".map."+mm.Name(), mt.Elem(), tb.BVi(64, 1<<20), false, true)
						os := st.mem[o]
						n := &ObjState{Leaves: map[string]*Content{}, ALen: os.ALen}
						for k, c := range os.Leaves {
							n.Leaves[k] = c
						}
						n.Leaves["#present"] = x.ContentConst(tb.False())
						st.mem[o] = n
						fr.env[mm] = &MapV{Obj: o, IsNil: tb.False(), Key: mt.Key(), Elem: mt.Elem()}
						x.builtinModels["map[string]struct modelled as an array of values indexed by an injective key index below 2^20, plus a presence bit"] = true
						break
					}
				}
			}
		}
		ov := &OpaqueV{T: v.(ssa.Value).Type(), Id: tb.Fresh("opaque", SInt), IsNil: tb.False()}
		fr.env[v.(ssa.Value)] = ov
		st.ghost[fmt.Sprintf("map:%d", ov.Id.id)] = tb.BVi(64, 0)
	case *ssa.MapUpdate:
		if m, ok := x.value(fr, st, v.Map).(*MapV); ok {
			idx := x.keyIdx(st, x.value(fr, st, v.Key).(*Term))
			x.writeElem(st, m.Obj, idx, nil, m.Elem, x.value(fr, st, v.Value))
			os := st.mem[m.Obj]
			n := &ObjState{Leaves: map[string]*Content{}, ALen: os.ALen, Cells: os.Cells}
			for k, c := range os.Leaves {
				n.Leaves[k] = c
			}
			n.Leaves["#present"] = x.StoreC(os.Leaves["#present"], idx, tb.True())
			st.mem[m.Obj] = n
			break
		}
		// ghost size only; the key is assumed absent (protocol assumption, listed)
		if m, ok := x.value(fr, st, v.Map).(*OpaqueV); ok {
			sz := x.mapSize(st, m)
			st.ghost[fmt.Sprintf("map:%d", m.Id.id)] = tb.BVBin("bvadd", sz, tb.BVi(64, 1))
		}
		x.builtinModels["map insert (ghost size + 1, key assumed absent)"] = true
	case *ssa.Lookup:
		if m, ok := x.value(fr, st, v.X).(*MapV); ok {
			idx := x.keyIdx(st, x.value(fr, st, v.Index).(*Term))
			val := x.readElem(st, m.Obj, idx, nil, m.Elem)
			present := x.Select(st.mem[m.Obj].Leaves["#present"], idx)
			if v.CommaOk {
				fr.env[v] = &TupleV{Vals: []SVal{val, present}}
			} else {
				// an absent key yields the zero value; the cells of absent keys are unconstrained here, which only adds behaviours
				fr.env[v] = val
			}
			break
		}
		x.warn("map/string lookup havocked")
		fr.env[v] = x.symbolic(st, v.Type(), "lookup", false, 0)
	case *ssa.Range, *ssa.Next:
		if rg, isR := v.(*ssa.Range); isR {
			if m, ok := x.value(fr, st, rg.X).(*MapV); ok {
				fr.env[rg] = m // the iterator is the map itself: every Next yields an arbitrary present entry
				break
			}
		}
		if nx, isN := v.(*ssa.Next); isN {
			if m, ok := x.value(fr, st, nx.Iter).(*MapV); ok {
				okT := tb.Fresh("range.ok", SBool)
				key := tb.Fresh("range.key", SInt)
				st.Assume(tb.mk(">=", SBool, nil, "", key, tb.Intc(0)))
				idx := x.keyIdx(st, key)
				st.Assume(tb.Implies(okT, x.Select(st.mem[m.Obj].Leaves["#present"], idx)))
				val := x.readElem(st, m.Obj, idx, nil, m.Elem)
				fr.env[nx] = &TupleV{Vals: []SVal{okT, key, val}}
				break
			}
		}
		x.warn("range over map/string havocked")
		// what the iteration yields is arbitrary pre-existing state (keys / values are not fresh objects)
		fr.env[v.(ssa.Value)] = x.symbolic(st, v.(ssa.Value).Type(), "range", true, 0)
	case *ssa.Send:
		x.warn("channel send ignored")
	default:
		x.aborted = fmt.Sprintf("unsupported instruction %T in %s", ins, fr.fn.Name())
		return false
	}
	return true
}

func (x *Exec) toInt64(t *Term, ty types.Type) *Term {
	w, signed, ok := isInteger(ty)
	if !ok {
		panic("toInt64 non-integer")
	}
	if w == 64 {
		return t
	}
	if signed {
		return x.tb.SExt(64, t)
	}
	return x.tb.ZExt(64, t)
}

func (x *Exec) unop(fr *Frame, st *State, v *ssa.UnOp) {
	tb := x.tb
	switch v.Op {
	case token.MUL: // load
		p, ok := x.value(fr, st, v.X).(*PtrV)
		if !ok {
			panic(fmt.Sprintf("load from %T", x.value(fr, st, v.X)))
		}
		x.safety(st, fr, "nil("+x.srcText(v.Pos())+")", tb.Not(p.IsNil), v.Pos())
		fr.env[v] = x.load(st, p, v.Type())
	case token.NOT:
		fr.env[v] = tb.Not(x.value(fr, st, v.X).(*Term))
	case token.SUB:
		fr.env[v] = tb.BVNeg(x.value(fr, st, v.X).(*Term))
	case token.XOR:
		fr.env[v] = tb.BVNot(x.value(fr, st, v.X).(*Term))
	case token.ARROW:
		x.warn("channel receive havocked")
		fr.env[v] = x.symbolic(st, v.Type(), "recv", false, 0)
	default:
		panic("unop " + v.Op.String())
	}
}

func (x *Exec) sliceOp(fr *Frame, st *State, v *ssa.Slice) {
	tb := x.tb
	base := x.value(fr, st, v.X)
	var obj *Object
	var off, ln, cp *Term
	var elem types.Type
	isnil := tb.False()
	switch bv := base.(type) {
	case *SliceV:
		obj, off, ln, cp, elem, isnil = bv.Obj, bv.Off, bv.Len, bv.Cap, bv.Elem, bv.IsNil
	case *PtrV:
		at := bv.Elem.Underlying().(*types.Array)
		x.safety(st, fr, "nil("+x.srcText(v.Pos())+")", tb.Not(bv.IsNil), v.Pos())
		elem = at.Elem()
		obj, off = x.arrayField(st, bv)
		ln, cp = tb.BVi(64, at.Len()), tb.BVi(64, at.Len())
	default:
		x.warn("slice of %T (string?) havocked", base)
		fr.env[v] = x.symbolic(st, v.Type(), "strslice", false, 0)
		return
	}
	lo := tb.BVi(64, 0)
	if v.Low != nil {
		lo = x.toInt64(x.value(fr, st, v.Low).(*Term), v.Low.Type())
	}
	hi := ln
	if v.High != nil {
		hi = x.toInt64(x.value(fr, st, v.High).(*Term), v.High.Type())
	}
	max := cp
	if v.Max != nil {
		max = x.toInt64(x.value(fr, st, v.Max).(*Term), v.Max.Type())
	}
	// Go rule: 0 <= lo <= hi <= max <= cap
	goal := tb.And(tb.BVCmp("bvsle", tb.BVi(64, 0), lo), tb.BVCmp("bvsle", lo, hi), tb.BVCmp("bvsle", hi, max), tb.BVCmp("bvsle", max, cp))
	x.safety(st, fr, "slice("+x.srcText(v.Pos())+")", goal, v.Pos())
	if x.noOverread && obj.Pre && !obj.Global {
		// stricter: the new slice may not expose cells beyond the input's length
		if x.safetyOn {
			o := x.addObl(st, fmt.Sprintf("%s/overread/slice(%s)", x.key, x.srcText(v.Pos())), "safety", tb.BVCmp("bvsle", hi, ln), v.Pos(), nil)
			_ = o
		}
		st.Assume(tb.BVCmp("bvsle", hi, ln))
	}
	fr.env[v] = &SliceV{Obj: obj, IsNil: tb.And(isnil), Off: tb.BVBin("bvadd", off, lo), Len: tb.BVBin("bvsub", hi, lo), Cap: tb.BVBin("bvsub", max, lo), Elem: elem}
}

func (x *Exec) binop(fr *Frame, st *State, op token.Token, a, b SVal, ta, tbT types.Type, pos token.Pos) SVal {
	tb := x.tb
	// comparisons on non-scalars
	switch av := a.(type) {
	case *PtrV:
		bv := b.(*PtrV)
		eq := x.ptrEq(av, bv)
		if op == token.EQL {
			return eq
		}
		return tb.Not(eq)
	case *IfaceV:
		bv := b.(*IfaceV)
		eq := x.ifaceEq(av, bv)
		if op == token.EQL {
			return eq
		}
		return tb.Not(eq)
	case *SliceV:
		// only comparison with nil is legal
		if op == token.EQL {
			return av.IsNil
		}
		return tb.Not(av.IsNil)
	case *FuncV:
		if op == token.EQL {
			return av.IsNil
		}
		return tb.Not(av.IsNil)
	case *OpaqueV:
		if op == token.EQL {
			return av.IsNil
		}
		return tb.Not(av.IsNil)
	case *StructV:
		eq := x.structEq(av, b.(*StructV))
		if op == token.EQL {
			return eq
		}
		return tb.Not(eq)
	}
	at, bt := a.(*Term), b.(*Term)
	if isBool(ta) {
		switch op {
		case token.EQL:
			return tb.Eq(at, bt)
		case token.NEQ:
			return tb.Not(tb.Eq(at, bt))
		case token.LAND, token.AND:
			return tb.And(at, bt)
		case token.LOR, token.OR:
			return tb.Or(at, bt)
		}
	}
	if isString(ta) {
		switch op {
		case token.EQL:
			return tb.Eq(at, bt)
		case token.NEQ:
			return tb.Not(tb.Eq(at, bt))
		case token.ADD:
			x.warn("string concatenation havocked")
			return tb.Fresh("strcat", SInt)
		}
		x.warn("string comparison %s havocked", op)
		return tb.Fresh("strcmp", SBool)
	}
	if _, isF := isFloat(ta); isF {
		return x.floatBin(st, op, at, bt, ta)
	}
	w, signed, ok := isInteger(ta)
	if !ok {
		panic(fmt.Sprintf("binop on %s", ta))
	}
	switch op {
	case token.ADD:
		return tb.BVBin("bvadd", at, bt)
	case token.SUB:
		return tb.BVBin("bvsub", at, bt)
	case token.MUL:
		return tb.BVBin("bvmul", at, bt)
	case token.QUO, token.REM:
		x.safety(st, fr, "divzero("+x.srcText(pos)+")", tb.Not(tb.Eq(bt, tb.BVi(w, 0))), pos)
		if signed {
			if op == token.QUO {
				return tb.BVBin("bvsdiv", at, bt)
			}
			return tb.BVBin("bvsrem", at, bt)
		}
		if op == token.QUO {
			return tb.BVBin("bvudiv", at, bt)
		}
		return tb.BVBin("bvurem", at, bt)
	case token.AND:
		return tb.BVBin("bvand", at, bt)
	case token.OR:
		return tb.BVBin("bvor", at, bt)
	case token.XOR:
		return tb.BVBin("bvxor", at, bt)
	case token.AND_NOT:
		return tb.BVBin("bvand", at, tb.BVNot(bt))
	case token.SHL, token.SHR:
		// shift count: any integer type; negative signed counts panic
		wb, sb, _ := isInteger(tbT)
		cnt := bt
		if sb {
			x.safety(st, fr, "negshift("+x.srcText(pos)+")", tb.BVCmp("bvsle", tb.BVi(wb, 0), cnt), pos)
		}
		// bring count to width w with saturation
		var c *Term
		if wb > w {
			big1 := tb.BVCmp("bvuge", cnt, tb.BVi(wb, int64(w)))
			c = tb.Ite(big1, tb.BVi(w, int64(w)), tb.Extract(w-1, 0, cnt))
		} else {
			c = tb.ZExt(w, cnt)
		}
		if op == token.SHL {
			return tb.BVBin("bvshl", at, c)
		}
		if signed {
			return tb.BVBin("bvashr", at, c)
		}
		return tb.BVBin("bvlshr", at, c)
	case token.EQL:
		return tb.Eq(at, bt)
	case token.NEQ:
		return tb.Not(tb.Eq(at, bt))
	case token.LSS, token.LEQ, token.GTR, token.GEQ:
		pre := "bvu"
		if signed {
			pre = "bvs"
		}
		suf := map[token.Token]string{token.LSS: "lt", token.LEQ: "le", token.GTR: "gt", token.GEQ: "ge"}[op]
		return tb.BVCmp(pre+suf, at, bt)
	}
	panic("binop " + op.String())
}

func (x *Exec) ptrEq(a, b *PtrV) *Term {
	tb := x.tb
	bothNil := tb.And(a.IsNil, b.IsNil)
	same := tb.False()
	if a.Obj == b.Obj && pathKey(a.Path) == pathKey(b.Path) {
		same = tb.True()
		if a.Idx != nil && b.Idx != nil {
			same = tb.Eq(a.Idx, b.Idx)
		}
	}
	return tb.Or(bothNil, tb.And(tb.Not(a.IsNil), tb.Not(b.IsNil), same))
}

func (x *Exec) ifaceEq(a, b *IfaceV) *Term {
	tb := x.tb
	// value payload comparison for concrete non-pointer payloads of same type
	if a.Dyn != nil && b.Dyn != nil {
		if !types.Identical(a.Dyn, b.Dyn) {
			return tb.False()
		}
		switch av := a.Val.(type) {
		case *PtrV:
			return x.ptrEq(av, b.Val.(*PtrV))
		case *Term:
			return tb.Eq(av, b.Val.(*Term))
		case *StructV:
			return x.structEq(av, b.Val.(*StructV))
		}
	}
	same := tb.Eq(a.Id, b.Id)
	if a.Bits != nil && b.Bits != nil {
		same = tb.And(same, tb.Eq(a.Bits, b.Bits))
	}
	if a.Str != nil && b.Str != nil {
		same = tb.And(same, tb.Eq(a.Str, b.Str))
	}
	return tb.And(tb.Eq(a.Tag, b.Tag), tb.Or(tb.Eq(a.Tag, tb.Intc(0)), same))
}

func (x *Exec) structEq(a, b *StructV) *Term {
	tb := x.tb
	var cs []*Term
	for i := range a.Fields {
		switch av := a.Fields[i].(type) {
		case *Term:
			cs = append(cs, tb.Eq(av, b.Fields[i].(*Term)))
		case *StructV:
			cs = append(cs, x.structEq(av, b.Fields[i].(*StructV)))
		case *PtrV:
			cs = append(cs, x.ptrEq(av, b.Fields[i].(*PtrV)))
		case *IfaceV:
			cs = append(cs, x.ifaceEq(av, b.Fields[i].(*IfaceV)))
		default:
			x.warn("struct equality over %T field havocked", av)
			cs = append(cs, tb.Fresh("structeq", SBool))
		}
	}
	return tb.And(cs...)
}

// ---------- floats ----------

func float64bits(f float64) uint64 { return math.Float64bits(f) }
func float32bits(f float32) uint32 { return math.Float32bits(f) }

func (x *Exec) toFP(bits *Term) *Term {
	if bits.sort.W == 64 {
		return x.tb.Raw("(_ to_fp 11 53)", SFP, bits)
	}
	panic("float32 arithmetic not supported")
}

// fpToBits introduces a fresh bit pattern b with to_fp(b) == f (valid for non-NaN results).
func (x *Exec) fpResult(st *State, f *Term) *Term {
	b := x.tb.Fresh("fpbits", BV(64))
	st.Assume(x.tb.mk("=", SBool, nil, "", x.toFP(b), f))
	return b
}

func (x *Exec) floatBin(st *State, op token.Token, a, b *Term, t types.Type) SVal {
	tb := x.tb
	fa, fb := x.toFP(a), x.toFP(b)
	switch op {
	case token.QUO:
		// floats are carried as bit patterns: bind the FP result to fresh bits
		return x.fpResult(st, tb.Raw("fp.div RNE", SFP, fa, fb))
	case token.LSS:
		return tb.Raw("fp.lt", SBool, fa, fb)
	case token.LEQ:
		return tb.Raw("fp.leq", SBool, fa, fb)
	case token.GTR:
		return tb.Raw("fp.gt", SBool, fa, fb)
	case token.GEQ:
		return tb.Raw("fp.geq", SBool, fa, fb)
	case token.EQL:
		return tb.Raw("fp.eq", SBool, fa, fb)
	}
	x.warn("float op %s havocked", op)
	return tb.Fresh("fphavoc", BV(64))
}

func (x *Exec) convert(st *State, v SVal, from, to types.Type) SVal {
	tb := x.tb
	t, ok := v.(*Term)
	if !ok {
		// []byte <-> string etc.
		x.warn("conversion %s -> %s havocked", from, to)
		return x.symbolic(st, to, "conv", false, 0)
	}
	wf, sf, fi := isInteger(from)
	wt, _, ti := isInteger(to)
	if fi && ti {
		if wt <= wf {
			return tb.Extract(wt-1, 0, t)
		}
		if sf {
			return tb.SExt(wt, t)
		}
		return tb.ZExt(wt, t)
	}
	if fw, isF := isFloat(to); isF && fi {
		if fw != 64 {
			x.warn("int->float32 havocked")
			return tb.Fresh("f32", BV(32))
		}
		op := "(_ to_fp_unsigned 11 53) RNE"
		if sf {
			op = "(_ to_fp 11 53) RNE"
		}
		return x.fpResult(st, tb.Raw(op, SFP, t))
	}
	if fw, isF := isFloat(from); isF && ti {
		if fw != 64 {
			x.warn("float32->int havocked")
			return tb.Fresh("f2i", BV(wt))
		}
		// Go: truncation toward zero; out-of-range is implementation-specific (we require in-range via the fp.to_sbv semantics only)
		r := tb.Raw("(_ fp.to_sbv 64) RTZ", BV(64), x.toFP(t))
		if wt < 64 {
			return tb.Extract(wt-1, 0, r)
		}
		return r
	}
	if isString(to) || isString(from) {
		x.warn("string conversion havocked")
		return x.symbolic(st, to, "strconv", false, 0)
	}
	x.warn("conversion %s -> %s havocked", from, to)
	return x.symbolic(st, to, "conv", false, 0)
}

// ---------- type assertions ----------

func (x *Exec) payloadFor(st *State, iv *IfaceV, t types.Type) SVal {
	if iv.Dyn != nil {
		return iv.Val
	}
	if srt, isScalar := scalarSort(t); isScalar {
		bits, str := x.ifaceBits(iv)
		switch srt.K {
		case KInt:
			return str
		case KBool:
			return x.tb.Eq(x.tb.Extract(0, 0, bits), x.tb.BVi(1, 1))
		default:
			return x.tb.Extract(srt.W-1, 0, bits)
		}
	}
	key := types.TypeString(t, nil)
	if iv.payloads == nil {
		iv.payloads = map[string]SVal{}
	}
	if iv.pmemo == nil {
		iv.pmemo = map[string]*payloadMemo{}
	}
	if p, ok := iv.payloads[key]; ok {
		if m := iv.pmemo[key]; m != nil {
			m.mergeInto(st)
		}
		return p
	}
	tmp := &State{mem: map[*Object]*ObjState{}, ghost: map[string]SVal{}, cuts: map[string]bool{}}
	p := x.symbolic(tmp, t, iv.Name+".("+shortType(t)+")", false, 1)
	if pv, ok := p.(*PtrV); ok {
		pv.IsNil = x.tb.Eq(iv.Id, x.tb.Intc(0))
	}
	iv.payloads[key] = p
	m := &payloadMemo{mem: tmp.mem, pc: tmp.pc}
	iv.pmemo[key] = m
	m.mergeInto(st)
	return p
}

type payloadMemo struct {
	mem map[*Object]*ObjState
	pc  []*Term
}

func (m *payloadMemo) mergeInto(st *State) {
	fresh := false
	for o, s := range m.mem {
		if _, ok := st.mem[o]; !ok {
			st.mem[o] = s
			fresh = true
		}
	}
	if fresh || len(m.mem) == 0 {
		have := map[int]bool{}
		for _, t := range st.pc {
			have[t.id] = true
		}
		for _, t := range m.pc {
			if !have[t.id] {
				st.pc = append(st.pc, t)
			}
		}
	}
}

func shortType(t types.Type) string {
	return types.TypeString(t, func(p *types.Package) string { return "" })
}

func (x *Exec) typeAssert(fr *Frame, st *State, v *ssa.TypeAssert, k func(*State, SVal)) {
	tb := x.tb
	iv, ok := x.value(fr, st, v.X).(*IfaceV)
	if !ok {
		panic("typeassert on non-iface")
	}
	if _, toIface := v.AssertedType.Underlying().(*types.Interface); toIface {
		// interface-to-interface assertion
		var okT *Term
		if iv.Dyn != nil {
			okT = tb.Bool(types.Implements(iv.Dyn, v.AssertedType.Underlying().(*types.Interface)))
		} else {
			okT = x.implementsUF(iv, v.AssertedType)
		}
		if iv.payloads == nil {
			iv.payloads = map[string]SVal{}
		}
		if iv.pmemo == nil {
			iv.pmemo = map[string]*payloadMemo{}
		}
		res := &IfaceV{Dyn: iv.Dyn, Val: iv.Val, Tag: iv.Tag, Id: iv.Id, Static: v.AssertedType, payloads: iv.payloads, Name: iv.Name, pmemo: iv.pmemo}
		if v.CommaOk {
			k(st, &TupleV{Vals: []SVal{res, okT}})
		} else {
			x.safety(st, fr, "typeassert("+x.srcText(v.Pos())+")", okT, v.Pos())
			k(st, res)
		}
		return
	}
	var match *Term
	if iv.Dyn != nil {
		match = tb.Bool(types.Identical(iv.Dyn, v.AssertedType))
	} else {
		match = tb.Eq(iv.Tag, x.typeTag(v.AssertedType))
	}
	if v.CommaOk {
		if match.IsFalse() {
			k(st, &TupleV{Vals: []SVal{x.zeroValue(v.AssertedType), tb.False()}})
			return
		}
		if match.IsTrue() {
			k(st, &TupleV{Vals: []SVal{x.payloadFor(st, iv, v.AssertedType), tb.True()}})
			return
		}
		st2 := st.Clone()
		st.Assume(match)
		k(st, &TupleV{Vals: []SVal{x.payloadFor(st, iv, v.AssertedType), tb.True()}})
		st2.Assume(tb.Not(match))
		k(st2, &TupleV{Vals: []SVal{x.zeroValue(v.AssertedType), tb.False()}})
		return
	}
	x.safety(st, fr, "typeassert("+x.srcText(v.Pos())+")", match, v.Pos())
	if match.IsFalse() {
		return
	}
	k(st, x.payloadFor(st, iv, v.AssertedType))
}

func (x *Exec) implementsUF(iv *IfaceV, t types.Type) *Term {
	if x.implIfaces == nil {
		x.implIfaces = map[string]types.Type{}
	}
	x.implIfaces[types.TypeString(t, nil)] = t
	f := x.tb.DeclareFun("implements."+sanitize(shortType(t)), []Sort{SInt}, SBool)
	return x.tb.And(x.tb.Not(x.tb.Eq(iv.Tag, x.tb.Intc(0))), x.tb.App(f, iv.Tag))
}

// ---------- select / defers ----------

func (x *Exec) doSelect(fr *Frame, st *State, v *ssa.Select, k func(*State, SVal)) {
	tb := x.tb
	// structural obligation (C08): inside a loop, the channels a select waits on (context, total timer) are the
	// same on every iteration - they are defined before the loop, not re-created or re-assigned in it
	if fr.top && x.structuralOn {
		inLoop := false
		for hb := range fr.headers {
			if hb.Dominates(v.Block()) {
				inLoop = true
			}
		}
		if inLoop {
			for i, sst := range v.States {
				ok := true
				var why string
				ch := sst.Chan
				if call, isCall := ch.(*ssa.Call); isCall && call.Common().IsInvoke() && call.Common().Method.Name() == "Done" {
					// ctx.Done(): same context value must be loop invariant
					ch = call.Common().Value
				}
				if phi, isPhi := ch.(*ssa.Phi); isPhi {
					if _, isHdr := fr.headers[phi.Block()]; isHdr {
						ok, why = false, "is re-assigned inside the loop (phi at the loop header)"
					}
				} else if ins, isIns := ch.(ssa.Instruction); isIns {
					for hb := range fr.headers {
						if hb.Dominates(ins.Block()) && hb != ins.Block() || hb == ins.Block() {
							ok, why = false, "is created inside the loop"
						}
					}
				}
				g := tb.Bool(ok)
				o := x.addObl(st, fmt.Sprintf("%s/structural/select-channel-%d-loop-invariant", x.key, i), "structural", g, v.Pos(), nil)
				o.Detail = why
			}
		}
	}
	// result tuple: (index int, recvOk bool, recv values...)
	n := len(v.States)
	lo := int64(0)
	if !v.Blocking {
		lo = -1
	}
	for i := lo; i < int64(n); i++ {
		s2 := st.Clone()
		s2.events = append(s2.events, fmt.Sprintf("select:%d", i))
		if f, ok := s2.ghost["faults"]; ok && i >= 0 {
			// a non-default case fired (context done / timer): counted as an environment fault
			s2.ghost["faults"] = tb.BVBin("bvadd", f.(*Term), tb.BVi(64, 1))
			x.ghostBound(s2, "faults")
		}
		vals := []SVal{tb.BVi(64, i), tb.Fresh("recvok", SBool)}
		for _, sst := range v.States {
			if sst.Dir == types.RecvOnly {
				vals = append(vals, x.symbolic(s2, sst.Chan.Type().Underlying().(*types.Chan).Elem(), "recv", false, 0))
			}
		}
		k(s2, &TupleV{Vals: vals})
	}
}

func (x *Exec) runDefers(fr *Frame, st *State, k func(*State)) {
	// run deferred calls of this frame LIFO
	var mine []deferred
	var rest []deferred
	for _, d := range st.defers {
		if d.fr == fr {
			mine = append(mine, d)
		} else {
			rest = append(rest, d)
		}
	}
	st.defers = rest
	var run func(i int, st *State)
	run = func(i int, st *State) {
		if i < 0 {
			k(st)
			return
		}
		d := mine[i].call.(*ssa.Defer)
		x.doCall(fr, st, nil, d.Common(), func(st2 *State, _ SVal) { run(i-1, st2) })
	}
	run(len(mine)-1, st)
}

// ---------- helpers ----------

func sortedKeys(m map[string]bool) []string {
	var out []string
	for k := range m {
		out = append(out, k)
	}
	sort.Strings(out)
	return out
}
