package main

// SMT term DAG with hash-consing and light constant folding.
// All Go integers are bit-vectors of their exact width; Int sort is used only for
// identities (object ids, type tags, string ids) - equality only, no arithmetic.

import (
	"os"
	"fmt"
	"math/big"
	"sort"
	"strings"
)

type SortKind int

const (
	KBool SortKind = iota
	KBV
	KInt
	KFP // float64 IEEE (11,53)
)

type Sort struct {
	K SortKind
	W int
}

var (
	SBool = Sort{KBool, 0}
	SInt  = Sort{KInt, 0}
	SFP   = Sort{KFP, 64}
)

func BV(w int) Sort { return Sort{KBV, w} }

func (s Sort) String() string {
	switch s.K {
	case KBool:
		return "Bool"
	case KBV:
		return fmt.Sprintf("(_ BitVec %d)", s.W)
	case KInt:
		return "Int"
	case KFP:
		return "(_ FloatingPoint 11 53)"
	}
	return "?"
}

type Term struct {
	id       int
	op       string // "const","var","app:<fname>", smt op name, "extract:h:l","zext:n","sext:n"
	args     []*Term
	sort     Sort
	val      *big.Int // for const (BV, Int, Bool: 0/1)
	name     string   // for var / uf name
	hasQ     bool     // contains a quantifier
	hasBound bool     // contains a quantifier-bound variable (never hoisted into define-fun)
	bound    bool     // is a bound variable
}

type FunDecl struct {
	Name string
	Args []Sort
	Ret  Sort
}

type TB struct {
	lastViaSolve bool
	structural   map[int]bool
	negSk map[int]*Term
	tab   map[string]*Term
	n     int
	vars  map[string]*Term
	funs  map[string]*FunDecl
	fresh map[string]int
}

func NewTB() *TB {
	return &TB{tab: map[string]*Term{}, vars: map[string]*Term{}, funs: map[string]*FunDecl{}, fresh: map[string]int{}}
}

func (tb *TB) mk(op string, sort Sort, val *big.Int, name string, args ...*Term) *Term {
	var sb strings.Builder
	sb.WriteString(op)
	sb.WriteByte('|')
	sb.WriteString(sort.String())
	sb.WriteByte('|')
	if val != nil {
		sb.WriteString(val.String())
	}
	sb.WriteByte('|')
	sb.WriteString(name)
	for _, a := range args {
		fmt.Fprintf(&sb, ",%d", a.id)
	}
	k := sb.String()
	if t, ok := tb.tab[k]; ok {
		return t
	}
	tb.n++
	t := &Term{id: tb.n, op: op, args: args, sort: sort, val: val, name: name}
	for _, a := range args {
		if a.hasBound {
			t.hasBound = true
		}
		if a.hasQ {
			t.hasQ = true
		}
	}
	if op == "forall" {
		t.hasQ = true
	}
	tb.tab[k] = t
	return t
}

// BoundVar creates a fresh quantifier-bound variable.
func (tb *TB) BoundVar(hint string, s Sort) *Term {
	v := tb.Fresh(hint+"!b", s)
	v.bound = true
	v.hasBound = true
	return v
}

// Forall builds (forall ((v sort)) body).
func (tb *TB) Forall(v *Term, body *Term) *Term {
	if body.IsTrue() {
		return body
	}
	if !body.hasBound {
		return body
	}
	t := tb.mk("forall", SBool, nil, v.name, v, body)
	// the quantifier closes v; other bound vars may remain
	t.hasBound = false
	var chk func(x *Term, seen map[int]bool) bool
	chk = func(x *Term, seen map[int]bool) bool {
		if seen[x.id] {
			return false
		}
		seen[x.id] = true
		if x.bound && x != v {
			return true
		}
		if !x.hasBound {
			return false
		}
		for _, a := range x.args {
			if chk(a, seen) {
				return true
			}
		}
		return false
	}
	t.hasBound = chk(body, map[int]bool{})
	return t
}

func sanitize(s string) string {
	var sb strings.Builder
	for _, r := range s {
		if r == '#' && os.Getenv("GOVC_KEEPHASH") == "" { // '#' is not a legal SMT-LIB symbol character
			sb.WriteByte('$')
			continue
		}
		if (r >= 'a' && r <= 'z') || (r >= 'A' && r <= 'Z') || (r >= '0' && r <= '9') || r == '_' || r == '.' || r == '$' || r == '#' || r == '!' || r == '@' {
			sb.WriteRune(r)
		} else {
			sb.WriteByte('_')
		}
	}
	return sb.String()
}

// Fresh returns a new variable with a unique name based on hint.
func (tb *TB) Fresh(hint string, s Sort) *Term {
	hint = sanitize(hint)
	n := tb.fresh[hint]
	tb.fresh[hint] = n + 1
	name := hint
	if n > 0 {
		name = fmt.Sprintf("%s!%d", hint, n)
	}
	for {
		if _, ok := tb.vars[name]; !ok {
			break
		}
		n++
		tb.fresh[hint] = n + 1
		name = fmt.Sprintf("%s!%d", hint, n)
	}
	t := tb.mk("var", s, nil, name)
	tb.vars[name] = t
	return t
}

func (tb *TB) Var(name string, s Sort) *Term {
	name = sanitize(name)
	if t, ok := tb.vars[name]; ok {
		if t.sort != s {
			panic("var sort clash " + name)
		}
		return t
	}
	t := tb.mk("var", s, nil, name)
	tb.vars[name] = t
	return t
}

func (tb *TB) Bool(b bool) *Term {
	v := big.NewInt(0)
	if b {
		v = big.NewInt(1)
	}
	return tb.mk("const", SBool, v, "")
}
func (tb *TB) True() *Term  { return tb.Bool(true) }
func (tb *TB) False() *Term { return tb.Bool(false) }

func mask(w int) *big.Int {
	m := new(big.Int).Lsh(big.NewInt(1), uint(w))
	return m.Sub(m, big.NewInt(1))
}

func (tb *TB) BVc(w int, v *big.Int) *Term {
	x := new(big.Int).And(v, mask(w)) // big.Int And on negative uses two's complement semantic
	if v.Sign() < 0 {
		m := new(big.Int).Lsh(big.NewInt(1), uint(w))
		x = new(big.Int).Mod(v, m)
	}
	return tb.mk("const", BV(w), x, "")
}
func (tb *TB) BVi(w int, v int64) *Term { return tb.BVc(w, big.NewInt(v)) }
func (tb *TB) Intc(v int64) *Term       { return tb.mk("const", SInt, big.NewInt(v), "") }

func (t *Term) hasForall() bool { return t.hasQ }
func (t *Term) IsConst() bool { return t.op == "const" }
func (t *Term) IsTrue() bool  { return t.op == "const" && t.sort.K == KBool && t.val.Sign() != 0 }
func (t *Term) IsFalse() bool { return t.op == "const" && t.sort.K == KBool && t.val.Sign() == 0 }
func (t *Term) Sort() Sort    { return t.sort }

// signed value of a BV const
func (t *Term) SVal() *big.Int {
	v := new(big.Int).Set(t.val)
	if t.sort.K == KBV && v.Bit(t.sort.W-1) == 1 {
		v.Sub(v, new(big.Int).Lsh(big.NewInt(1), uint(t.sort.W)))
	}
	return v
}

func (tb *TB) Not(a *Term) *Term {
	if a.IsConst() {
		return tb.Bool(!a.IsTrue())
	}
	if a.op == "not" {
		return a.args[0]
	}
	return tb.mk("not", SBool, nil, "", a)
}

func (tb *TB) And(as ...*Term) *Term {
	var out []*Term
	seen := map[int]bool{}
	for _, a := range as {
		if a.IsFalse() {
			return a
		}
		if a.IsTrue() || seen[a.id] {
			continue
		}
		if a.op == "and" {
			for _, b := range a.args {
				if !seen[b.id] {
					seen[b.id] = true
					out = append(out, b)
				}
			}
			continue
		}
		seen[a.id] = true
		out = append(out, a)
	}
	if len(out) == 0 {
		return tb.True()
	}
	if len(out) == 1 {
		return out[0]
	}
	return tb.mk("and", SBool, nil, "", out...)
}

func (tb *TB) Or(as ...*Term) *Term {
	var out []*Term
	seen := map[int]bool{}
	for _, a := range as {
		if a.IsTrue() {
			return a
		}
		if a.IsFalse() || seen[a.id] {
			continue
		}
		seen[a.id] = true
		out = append(out, a)
	}
	if len(out) == 0 {
		return tb.False()
	}
	if len(out) == 1 {
		return out[0]
	}
	return tb.mk("or", SBool, nil, "", out...)
}

func (tb *TB) Implies(a, b *Term) *Term {
	if a.IsTrue() {
		return b
	}
	if a.IsFalse() || b.IsTrue() {
		return tb.True()
	}
	if b.IsFalse() {
		return tb.Not(a)
	}
	return tb.mk("=>", SBool, nil, "", a, b)
}

func (tb *TB) Eq(a, b *Term) *Term {
	if a.sort != b.sort {
		panic(fmt.Sprintf("Eq sort mismatch %v %v (%s vs %s)", a.sort, b.sort, tb.Show(a), tb.Show(b)))
	}
	if a == b {
		return tb.True()
	}
	if a.IsConst() && b.IsConst() {
		return tb.Bool(a.val.Cmp(b.val) == 0)
	}
	if a.sort.K == KBool {
		if a.IsTrue() {
			return b
		}
		if b.IsTrue() {
			return a
		}
		if a.IsFalse() {
			return tb.Not(b)
		}
		if b.IsFalse() {
			return tb.Not(a)
		}
	}
	if a.id > b.id {
		a, b = b, a
	}
	if a.sort.K == KFP {
		return tb.mk("fp.eq", SBool, nil, "", a, b)
	}
	return tb.mk("=", SBool, nil, "", a, b)
}

func (tb *TB) Ite(c, a, b *Term) *Term {
	if c.IsTrue() {
		return a
	}
	if c.IsFalse() {
		return b
	}
	if a == b {
		return a
	}
	if a.sort != b.sort {
		panic(fmt.Sprintf("Ite sort mismatch %v %v", a.sort, b.sort))
	}
	if a.sort.K == KBool {
		if a.IsTrue() && b.IsFalse() {
			return c
		}
		if a.IsFalse() && b.IsTrue() {
			return tb.Not(c)
		}
	}
	return tb.mk("ite", a.sort, nil, "", c, a, b)
}

// BV binary ops with constant folding.
func (tb *TB) BVBin(op string, a, b *Term) *Term {
	if a.sort != b.sort || a.sort.K != KBV {
		panic(fmt.Sprintf("BVBin %s sort mismatch %v %v: %s ; %s", op, a.sort, b.sort, tb.Show(a), tb.Show(b)))
	}
	w := a.sort.W
	if a.IsConst() && b.IsConst() {
		x, y := a.val, b.val
		m := new(big.Int).Lsh(big.NewInt(1), uint(w))
		r := new(big.Int)
		ok := true
		switch op {
		case "bvadd":
			r.Add(x, y)
		case "bvsub":
			r.Sub(x, y)
		case "bvmul":
			r.Mul(x, y)
		case "bvand":
			r.And(x, y)
		case "bvor":
			r.Or(x, y)
		case "bvxor":
			r.Xor(x, y)
		case "bvshl":
			if y.Cmp(big.NewInt(int64(w))) >= 0 {
				r.SetInt64(0)
			} else {
				r.Lsh(x, uint(y.Int64()))
			}
		case "bvlshr":
			if y.Cmp(big.NewInt(int64(w))) >= 0 {
				r.SetInt64(0)
			} else {
				r.Rsh(x, uint(y.Int64()))
			}
		case "bvudiv":
			if y.Sign() == 0 {
				ok = false
			} else {
				r.Div(x, y)
			}
		case "bvurem":
			if y.Sign() == 0 {
				ok = false
			} else {
				r.Mod(x, y)
			}
		case "bvsdiv":
			sy := b.SVal()
			if sy.Sign() == 0 {
				ok = false
			} else {
				r.Quo(a.SVal(), sy)
			}
		case "bvsrem":
			sy := b.SVal()
			if sy.Sign() == 0 {
				ok = false
			} else {
				r.Rem(a.SVal(), sy)
			}
		default:
			ok = false
		}
		if ok {
			r.Mod(r, m)
			if r.Sign() < 0 {
				r.Add(r, m)
			}
			return tb.BVc(w, r)
		}
	}
	// identities
	switch op {
	case "bvadd":
		if a.IsConst() && a.val.Sign() == 0 {
			return b
		}
		if b.IsConst() && b.val.Sign() == 0 {
			return a
		}
		// (x + c1) + c2 -> x + (c1+c2)
		if b.IsConst() && a.op == "bvadd" && a.args[1].IsConst() {
			return tb.BVBin("bvadd", a.args[0], tb.BVBin("bvadd", a.args[1], b))
		}
		if a.IsConst() && !b.IsConst() {
			a, b = b, a
		}
		// (x - y) + y -> x
		if a.op == "bvsub" && a.args[1] == b {
			return a.args[0]
		}
		if b.op == "bvsub" && b.args[1] == a {
			return b.args[0]
		}
	case "bvsub":
		// (x + y) - y -> x ; (y + x) - y -> x
		if a.op == "bvadd" && a.args[1] == b {
			return a.args[0]
		}
		if a.op == "bvadd" && a.args[0] == b {
			return a.args[1]
		}
		if b.IsConst() && b.val.Sign() == 0 {
			return a
		}
		if a == b {
			return tb.BVi(w, 0)
		}
		if b.IsConst() {
			return tb.BVBin("bvadd", a, tb.BVBin("bvsub", tb.BVi(w, 0), b))
		}
	case "bvmul":
		if a.IsConst() && a.val.Cmp(big.NewInt(1)) == 0 {
			return b
		}
		if b.IsConst() && b.val.Cmp(big.NewInt(1)) == 0 {
			return a
		}
	case "bvand":
		if a == b {
			return a
		}
	case "bvor":
		if a == b {
			return a
		}
		if a.IsConst() && a.val.Sign() == 0 {
			return b
		}
		if b.IsConst() && b.val.Sign() == 0 {
			return a
		}
	case "bvshl", "bvlshr", "bvashr":
		if b.IsConst() && b.val.Sign() == 0 {
			return a
		}
	}
	return tb.mk(op, a.sort, nil, "", a, b)
}

func (tb *TB) BVCmp(op string, a, b *Term) *Term {
	if a.sort != b.sort || a.sort.K != KBV {
		panic(fmt.Sprintf("BVCmp %s sort mismatch %v %v: %s ; %s", op, a.sort, b.sort, tb.Show(a), tb.Show(b)))
	}
	if a.IsConst() && b.IsConst() {
		var c int
		if op[2] == 's' {
			c = a.SVal().Cmp(b.SVal())
		} else {
			c = a.val.Cmp(b.val)
		}
		switch op {
		case "bvult", "bvslt":
			return tb.Bool(c < 0)
		case "bvule", "bvsle":
			return tb.Bool(c <= 0)
		case "bvugt", "bvsgt":
			return tb.Bool(c > 0)
		case "bvuge", "bvsge":
			return tb.Bool(c >= 0)
		}
	}
	if a == b {
		switch op {
		case "bvult", "bvslt", "bvugt", "bvsgt":
			return tb.False()
		default:
			return tb.True()
		}
	}
	return tb.mk(op, SBool, nil, "", a, b)
}

func (tb *TB) BVNot(a *Term) *Term {
	if a.IsConst() {
		return tb.BVc(a.sort.W, new(big.Int).Xor(a.val, mask(a.sort.W)))
	}
	return tb.mk("bvnot", a.sort, nil, "", a)
}
func (tb *TB) BVNeg(a *Term) *Term {
	return tb.BVBin("bvsub", tb.BVi(a.sort.W, 0), a)
}

func (tb *TB) Extract(hi, lo int, a *Term) *Term {
	if a.sort.K != KBV {
		panic("extract non-bv")
	}
	if lo == 0 && hi == a.sort.W-1 {
		return a
	}
	if a.IsConst() {
		v := new(big.Int).Rsh(a.val, uint(lo))
		return tb.BVc(hi-lo+1, v)
	}
	// extract of zext
	if strings.HasPrefix(a.op, "zext:") && hi < a.args[0].sort.W {
		return tb.Extract(hi, lo, a.args[0])
	}
	return tb.mk(fmt.Sprintf("extract:%d:%d", hi, lo), BV(hi-lo+1), nil, "", a)
}

func (tb *TB) ZExt(to int, a *Term) *Term {
	w := a.sort.W
	if to == w {
		return a
	}
	if to < w {
		return tb.Extract(to-1, 0, a)
	}
	if a.IsConst() {
		return tb.BVc(to, a.val)
	}
	return tb.mk(fmt.Sprintf("zext:%d", to-w), BV(to), nil, "", a)
}
func (tb *TB) SExt(to int, a *Term) *Term {
	w := a.sort.W
	if to == w {
		return a
	}
	if to < w {
		return tb.Extract(to-1, 0, a)
	}
	if a.IsConst() {
		return tb.BVc(to, a.SVal())
	}
	return tb.mk(fmt.Sprintf("sext:%d", to-w), BV(to), nil, "", a)
}
func (tb *TB) Concat(a, b *Term) *Term {
	if a.IsConst() && b.IsConst() {
		v := new(big.Int).Lsh(a.val, uint(b.sort.W))
		v.Or(v, b.val)
		return tb.BVc(a.sort.W+b.sort.W, v)
	}
	return tb.mk("concat", BV(a.sort.W+b.sort.W), nil, "", a, b)
}

// DeclareFun declares an uninterpreted function.
func (tb *TB) DeclareFun(name string, args []Sort, ret Sort) *FunDecl {
	name = sanitize(name)
	if f, ok := tb.funs[name]; ok {
		return f
	}
	f := &FunDecl{Name: name, Args: args, Ret: ret}
	tb.funs[name] = f
	return f
}

func (tb *TB) App(f *FunDecl, args ...*Term) *Term {
	if len(args) != len(f.Args) {
		panic("App arity " + f.Name)
	}
	for i, a := range args {
		if a.sort != f.Args[i] {
			panic(fmt.Sprintf("App %s arg %d sort %v want %v", f.Name, i, a.sort, f.Args[i]))
		}
	}
	return tb.mk("app", f.Ret, nil, f.Name, args...)
}

// raw builds an arbitrary SMT application (used for FP ops).
func (tb *TB) Raw(op string, s Sort, args ...*Term) *Term {
	return tb.mk("raw:"+op, s, nil, "", args...)
}

// ---------- printing ----------

func bvLit(w int, v *big.Int) string {
	if w%4 == 0 {
		return fmt.Sprintf("#x%0*s", w/4, v.Text(16))
	}
	return fmt.Sprintf("#b%0*s", w, v.Text(2))
}

func (tb *TB) head(t *Term) string {
	switch {
	case t.op == "app":
		return t.name
	case strings.HasPrefix(t.op, "extract:"):
		var h, l int
		fmt.Sscanf(t.op, "extract:%d:%d", &h, &l)
		return fmt.Sprintf("(_ extract %d %d)", h, l)
	case strings.HasPrefix(t.op, "zext:"):
		return "(_ zero_extend " + t.op[5:] + ")"
	case strings.HasPrefix(t.op, "sext:"):
		return "(_ sign_extend " + t.op[5:] + ")"
	case strings.HasPrefix(t.op, "raw:"):
		return t.op[4:]
	}
	return t.op
}

func (tb *TB) leaf(t *Term) (string, bool) {
	switch t.op {
	case "const":
		switch t.sort.K {
		case KBool:
			if t.val.Sign() != 0 {
				return "true", true
			}
			return "false", true
		case KBV:
			return bvLit(t.sort.W, t.val), true
		case KInt:
			if t.val.Sign() < 0 {
				return "(- " + new(big.Int).Neg(t.val).String() + ")", true
			}
			return t.val.String(), true
		}
	case "var":
		return t.name, true
	}
	if t.op == "app" && len(t.args) == 0 {
		return t.name, true
	}
	return "", false
}

// Show prints a term fully expanded (for diagnostics; may be large).
func (tb *TB) Show(t *Term) string {
	if s, ok := tb.leaf(t); ok {
		return s
	}
	if t.op == "forall" {
		return fmt.Sprintf("(forall ((%s %s)) %s)", t.args[0].name, t.args[0].sort, tb.Show(t.args[1]))
	}
	var sb strings.Builder
	sb.WriteByte('(')
	sb.WriteString(tb.head(t))
	for _, a := range t.args {
		sb.WriteByte(' ')
		sb.WriteString(tb.Show(a))
	}
	sb.WriteByte(')')
	s := sb.String()
	if len(s) > 4000 {
		return s[:4000] + "...)"
	}
	return s
}

// Script renders a complete SMT-LIB2 script asserting all of asserts, with DAG sharing via define-fun.
func (tb *TB) Script(asserts []*Term, getValues []*Term, logicFP bool) string {
	// collect reachable
	seen := map[int]bool{}
	refs := map[int]int{}
	var order []*Term
	var visit func(t *Term)
	visit = func(t *Term) {
		refs[t.id]++
		if seen[t.id] {
			return
		}
		seen[t.id] = true
		for _, a := range t.args {
			visit(a)
		}
		order = append(order, t)
	}
	for _, a := range asserts {
		visit(a)
	}
	for _, a := range getValues {
		visit(a)
	}
	var sb strings.Builder
	sb.WriteString("(set-option :produce-models true)\n")
	sb.WriteString("(set-logic ALL)\n")
	// declarations
	var vnames []string
	vmap := map[string]*Term{}
	fused := map[string]bool{}
	for _, t := range order {
		if t.op == "var" && !t.bound {
			vnames = append(vnames, t.name)
			vmap[t.name] = t
		}
		if t.op == "app" {
			fused[t.name] = true
		}
	}
	sort.Strings(vnames)
	for _, n := range vnames {
		fmt.Fprintf(&sb, "(declare-fun %s () %s)\n", n, vmap[n].sort)
	}
	var fnames []string
	for n := range fused {
		fnames = append(fnames, n)
	}
	sort.Strings(fnames)
	for _, n := range fnames {
		f := tb.funs[n]
		var as []string
		for _, a := range f.Args {
			as = append(as, a.String())
		}
		fmt.Fprintf(&sb, "(declare-fun %s (%s) %s)\n", n, strings.Join(as, " "), f.Ret)
	}
	names := map[int]string{}
	var render func(t *Term) string
	render = func(t *Term) string {
		if s, ok := tb.leaf(t); ok {
			return s
		}
		if n, ok := names[t.id]; ok {
			return n
		}
		if t.op == "forall" {
			if pats := tb.patternsFor(t); len(pats) > 0 && usePatterns {
				var pb strings.Builder
				for _, p := range pats {
					pb.WriteString(" :pattern (" + render(p) + ")")
				}
				return fmt.Sprintf("(forall ((%s %s)) (! %s%s))", t.args[0].name, t.args[0].sort, render(t.args[1]), pb.String())
			}
			return fmt.Sprintf("(forall ((%s %s)) %s)", t.args[0].name, t.args[0].sort, render(t.args[1]))
		}
		var b strings.Builder
		b.WriteByte('(')
		b.WriteString(tb.head(t))
		for _, a := range t.args {
			b.WriteByte(' ')
			b.WriteString(render(a))
		}
		b.WriteByte(')')
		return b.String()
	}
	for _, t := range order {
		if _, ok := tb.leaf(t); ok {
			continue
		}
		if refs[t.id] > 1 && !t.hasBound && t.op != "forall" {
			s := render(t)
			n := fmt.Sprintf("n!%d", t.id)
			fmt.Fprintf(&sb, "(define-fun %s () %s %s)\n", n, t.sort, s)
			names[t.id] = n
		}
	}
	for _, a := range asserts {
		fmt.Fprintf(&sb, "(assert %s)\n", render(a))
	}
	sb.WriteString("(check-sat)\n")
	if len(getValues) > 0 {
		sb.WriteString("(get-value (")
		for i, g := range getValues {
			if i > 0 {
				sb.WriteByte(' ')
			}
			sb.WriteString(render(g))
		}
		sb.WriteString("))\n")
	}
	return sb.String()
}

// Subst replaces variable v by r in t (rebuilding through the hash-consing constructor).
func (tb *TB) Subst(t, v, r *Term) *Term {
	memo := map[int]*Term{}
	var rec func(t *Term) *Term
	rec = func(t *Term) *Term {
		if t == v {
			return r
		}
		if len(t.args) == 0 {
			return t
		}
		if m, ok := memo[t.id]; ok {
			return m
		}
		changed := false
		args := make([]*Term, len(t.args))
		for i, a := range t.args {
			args[i] = rec(a)
			if args[i] != a {
				changed = true
			}
		}
		res := t
		if changed {
			res = tb.mk(t.op, t.sort, t.val, t.name, args...)
			if t.op == "forall" {
				res.hasBound = t.hasBound
			}
		}
		memo[t.id] = res
		return res
	}
	return rec(t)
}

func (tb *TB) mentions(t, v *Term) bool {
	seen := map[int]bool{}
	var rec func(t *Term) bool
	rec = func(t *Term) bool {
		if t == v {
			return true
		}
		if seen[t.id] {
			return false
		}
		seen[t.id] = true
		for _, a := range t.args {
			if rec(a) {
				return true
			}
		}
		return false
	}
	return rec(t)
}

// IndexOffsets finds the terms c such that body applies an uninterpreted function (array read) to v+c.
func (tb *TB) IndexOffsets(body, v *Term) []*Term {
	var out []*Term
	got := map[int]bool{}
	seen := map[int]bool{}
	var rec func(t *Term)
	rec = func(t *Term) {
		if seen[t.id] {
			return
		}
		seen[t.id] = true
		if t.op == "app" {
			for _, a := range t.args {
				if a.op == "bvadd" && len(a.args) == 2 {
					var c *Term
					if a.args[0] == v && !tb.mentions(a.args[1], v) {
						c = a.args[1]
					} else if a.args[1] == v && !tb.mentions(a.args[0], v) {
						c = a.args[0]
					}
					if c != nil && !got[c.id] && !c.hasBound {
						got[c.id] = true
						out = append(out, c)
					}
				}
			}
		}
		for _, a := range t.args {
			rec(a)
		}
	}
	rec(body)
	return out
}

// DropQuantifiers replaces every quantified subformula by true (positive positions only make sense for
// hypotheses: used to obtain the ground part of a path condition for reachability checks).
func (tb *TB) DropQuantifiers(t *Term) *Term {
	memo := map[int]*Term{}
	var rec func(t *Term) *Term
	rec = func(t *Term) *Term {
		if t.op == "forall" {
			return tb.True()
		}
		if len(t.args) == 0 || t.sort.K != KBool {
			return t
		}
		if m, ok := memo[t.id]; ok {
			return m
		}
		var res *Term
		switch t.op {
		case "and":
			var as []*Term
			for _, a := range t.args {
				as = append(as, rec(a))
			}
			res = tb.And(as...)
		case "or", "=>", "not", "ite", "=":
			// a quantifier under these: drop the whole subformula (weakening a hypothesis is sound for a cover)
			has := false
			var scan func(x *Term)
			seen := map[int]bool{}
			scan = func(x *Term) {
				if has || seen[x.id] {
					return
				}
				seen[x.id] = true
				if x.op == "forall" {
					has = true
					return
				}
				for _, a := range x.args {
					scan(a)
				}
			}
			scan(t)
			if has {
				res = tb.True()
			} else {
				res = t
			}
		default:
			res = t
		}
		memo[t.id] = res
		return res
	}
	return rec(t)
}

// ---------- quantifier instantiation aid ----------

// Skolems returns the skolem constants (fresh BV64 variables introduced for goal-side universals) in t.
func (tb *TB) Skolems(t *Term) []*Term {
	var out []*Term
	seen := map[int]bool{}
	var rec func(x *Term)
	rec = func(x *Term) {
		if seen[x.id] {
			return
		}
		seen[x.id] = true
		if x.op == "var" && !x.bound && (strings.Contains(x.name, "!sk") || strings.Contains(x.name, "!wit") || strings.HasPrefix(x.name, "crc.k")) {
			out = append(out, x)
		}
		if x.op == "app" && strings.Contains(x.name, "!skf") && !x.hasBound && x.sort.K == KBV && x.sort.W == 64 {
			out = append(out, x)
		}
		for _, a := range x.args {
			rec(a)
		}
	}
	rec(t)
	return out
}

// polarForalls collects forall subterms of t by polarity (outermost only). pol: +1 positive, -1 negative, 0 unknown.
func (tb *TB) polarForalls(t *Term, pol int, pos, neg map[*Term]bool) {
	switch t.op {
	case "forall":
		if pol > 0 {
			pos[t] = true
		} else {
			neg[t] = true
		}
	case "and", "or":
		for _, a := range t.args {
			tb.polarForalls(a, pol, pos, neg)
		}
	case "not":
		tb.polarForalls(t.args[0], -pol, pos, neg)
	case "=>":
		tb.polarForalls(t.args[0], -pol, pos, neg)
		tb.polarForalls(t.args[1], pol, pos, neg)
	case "ite":
		if t.sort.K == KBool {
			tb.polarForalls(t.args[0], 0, pos, neg)
			tb.polarForalls(t.args[1], pol, pos, neg)
			tb.polarForalls(t.args[2], pol, pos, neg)
		}
	default:
		if t.sort.K == KBool {
			for _, a := range t.args {
				if a.sort.K == KBool {
					tb.polarForalls(a, 0, pos, neg)
				}
			}
		}
	}
}

// GroundApps collects, per unary uninterpreted function over BV64 (array contents), the ground index terms it is applied to in t.
func (tb *TB) GroundApps(t *Term, into map[string][]*Term) {
	seen := map[int]bool{}
	have := map[string]map[int]bool{}
	for k, v := range into {
		have[k] = map[int]bool{}
		for _, x := range v {
			have[k][x.id] = true
		}
	}
	var rec func(x *Term)
	rec = func(x *Term) {
		if seen[x.id] {
			return
		}
		seen[x.id] = true
		if x.op == "forall" {
			return
		}
		if x.op == "app" && len(x.args) == 1 && x.args[0].sort.K == KBV && x.args[0].sort.W == 64 && !x.args[0].hasBound {
			if have[x.name] == nil {
				have[x.name] = map[int]bool{}
			}
			if !have[x.name][x.args[0].id] && len(into[x.name]) < 40 {
				have[x.name][x.args[0].id] = true
				into[x.name] = append(into[x.name], x.args[0])
			}
		}
		for _, a := range x.args {
			rec(a)
		}
	}
	rec(t)
}

// solveFor inverts a +/- chain: the value of v for which arg (containing v exactly along one +/- path) equals t.
func (tb *TB) solveFor(arg, v, t *Term) (*Term, bool) {
	for depth := 0; depth < 8; depth++ {
		if arg == v {
			return t, true
		}
		if len(arg.args) != 2 || (arg.op != "bvadd" && arg.op != "bvsub") {
			return nil, false
		}
		x, y := arg.args[0], arg.args[1]
		inx, iny := tb.mentions(x, v), tb.mentions(y, v)
		if inx == iny {
			return nil, false
		}
		if arg.op == "bvadd" {
			if inx {
				if y.hasBound {
					return nil, false
				}
				t, arg = tb.BVBin("bvsub", t, y), x
			} else {
				if x.hasBound {
					return nil, false
				}
				t, arg = tb.BVBin("bvsub", t, x), y
			}
		} else {
			if inx {
				if y.hasBound {
					return nil, false
				}
				t, arg = tb.BVBin("bvadd", t, y), x
			} else {
				if x.hasBound {
					return nil, false
				}
				t, arg = tb.BVBin("bvsub", x, t), y
			}
		}
	}
	return nil, false
}

// unifyFor matches the index pattern pat (which may contain bound variables) against the ground term t and returns the
// value v must take.  Other bound variables act as wildcards.  Syntactic, with bvadd commutativity and the +/- chain
// inversion of solveFor as a fallback.
func (tb *TB) unifyFor(pat, v, t *Term, depth int) (*Term, bool) {
	if pat == v {
		return t, true
	}
	if depth > 6 || !tb.mentions(pat, v) {
		return nil, false
	}
	if pat.op == t.op && len(pat.args) == len(t.args) && len(pat.args) > 0 && pat.name == t.name && pat.op != "var" {
		try := func(order []int) (*Term, bool) {
			var res *Term
			for n, pi := range order {
				pa, ta := pat.args[pi], t.args[n]
				if tb.mentions(pa, v) {
					r, ok := tb.unifyFor(pa, v, ta, depth+1)
					if !ok {
						return nil, false
					}
					if res != nil && res != r {
						return nil, false
					}
					res = r
				} else if !pa.hasBound && pa != ta {
					return nil, false
				}
			}
			return res, res != nil
		}
		ident := make([]int, len(pat.args))
		for n := range ident {
			ident[n] = n
		}
		if r, ok := try(ident); ok {
			return r, true
		}
		if pat.op == "bvadd" && len(pat.args) == 2 {
			if r, ok := try([]int{1, 0}); ok {
				return r, true
			}
		}
	}
	r, ok := tb.solveFor(pat, v, t)
	if ok {
		tb.lastViaSolve = true
	}
	return r, ok
}

// matchPoints: values for the bound variable v of a quantifier body under which some array read f(arg(v)) of the body
// coincides with a ground read f(t) (single-pattern E-matching done here).
func (tb *TB) matchPoints(body, v *Term, apps map[string][]*Term) []*Term {
	var out []*Term
	got := map[int]bool{}
	seen := map[int]bool{}
	var rec func(x *Term)
	rec = func(x *Term) {
		if seen[x.id] {
			return
		}
		seen[x.id] = true
		if x.op == "app" && len(x.args) == 1 && len(apps[x.name]) > 0 && tb.mentions(x.args[0], v) {
			for _, t := range apps[x.name] {
				tb.lastViaSolve = false
				if p, ok := tb.unifyFor(x.args[0], v, t, 0); ok && !p.hasBound && !got[p.id] {
					got[p.id] = true
					out = append(out, p)
					if !tb.lastViaSolve {
						if tb.structural == nil {
							tb.structural = map[int]bool{}
						}
						tb.structural[p.id] = true // every non-variable part of the pattern matched syntactically
					}
				}
			}
		}
		for _, a := range x.args {
			rec(a)
		}
	}
	rec(body)
	return out
}

// InstantiateForalls returns consequences of the hypothesis a obtained by instantiating its positively
// occurring universal quantifiers at the given ground terms and at the match points against the goal's
// array reads (a |= every returned term).
func (tb *TB) InstantiateForalls(a *Term, at []*Term, apps map[string][]*Term, rounds, budget int) []*Term {
	var out []*Term
	seenOut := map[int]bool{a.id: true}
	work := []*Term{a}
	for r := 0; r < rounds && len(work) > 0; r++ {
		var next []*Term
		for _, h := range work {
			pos, neg := map[*Term]bool{}, map[*Term]bool{}
			tb.polarForalls(h, 1, pos, neg)
			for q := range pos {
				if neg[q] {
					continue
				}
				v, body := q.args[0], q.args[1]
				points := append([]*Term(nil), at...)
				for _, mp := range tb.matchPoints(body, v, apps) {
					dup := false
					for _, p := range points {
						if p == mp {
							dup = true
						}
					}
					if !dup && len(points) < 16 {
						points = append(points, mp)
					}
				}
				for _, g := range points {
					if g.sort != v.sort {
						continue
					}
					inst := tb.Subst(h, q, tb.Subst(body, v, g))
					if seenOut[inst.id] {
						continue
					}
					seenOut[inst.id] = true
					if len(out) >= budget {
						return out
					}
					out = append(out, inst)
					next = append(next, inst)
				}
			}
		}
		work = next
	}
	return out
}

// WeakenQ returns a quantifier-free consequence of the hypothesis t: quantified subformulas in positive position
// become true, in negative position false (t |= WeakenQ(t, 1)).
func (tb *TB) WeakenQ(t *Term, pol int) *Term {
	if !t.hasQ {
		return t
	}
	cut := func() *Term {
		if pol > 0 {
			return tb.True()
		}
		return tb.False()
	}
	switch t.op {
	case "forall":
		return cut()
	case "and":
		var as []*Term
		for _, a := range t.args {
			as = append(as, tb.WeakenQ(a, pol))
		}
		return tb.And(as...)
	case "or":
		var as []*Term
		for _, a := range t.args {
			as = append(as, tb.WeakenQ(a, pol))
		}
		return tb.Or(as...)
	case "not":
		return tb.Not(tb.WeakenQ(t.args[0], -pol))
	case "=>":
		return tb.Implies(tb.WeakenQ(t.args[0], -pol), tb.WeakenQ(t.args[1], pol))
	case "ite":
		if t.sort.K == KBool && !t.args[0].hasQ {
			return tb.Ite(t.args[0], tb.WeakenQ(t.args[1], pol), tb.WeakenQ(t.args[2], pol))
		}
	}
	return cut()
}

// InstAll returns a consequence of the hypothesis h in which every positively occurring universal quantifier is
// replaced by the conjunction of its instances at the given points and at the match points of its array reads
// against apps (recursively, depth levels of nesting).  Quantifiers in negative position are left alone.
func (tb *TB) InstAll(h *Term, points []*Term, apps map[string][]*Term, depth int, pol int) *Term {
	if !h.hasQ {
		return h
	}
	switch h.op {
	case "forall":
		if pol < 0 && !h.hasBound && depth > 0 {
			// a closed universal in negative position is an existential: skolemise it (equisatisfiable; the
			// constant is fresh, so a refutation with it is a refutation without it)
			v, body := h.args[0], h.args[1]
			key := h.id
			sk, ok := tb.negSk[key]
			if !ok {
				sk = tb.Fresh(v.name+"!wit", v.sort)
				if tb.negSk == nil {
					tb.negSk = map[int]*Term{}
				}
				tb.negSk[key] = sk
			}
			return tb.InstAll(tb.Subst(body, v, sk), points, apps, depth-1, pol)
		}
		if pol <= 0 || depth <= 0 {
			return h
		}
		v, body := h.args[0], h.args[1]
		// match points first (they are what E-matching would pick), then the skolem / witness points
		var pts []*Term
		mps := tb.matchPoints(body, v, apps)
		// candidates built from existential witnesses first
		// simplest candidates first: junk matches (reads of other rows of the same array) give large difference terms
		sz := map[int]int{}
		for _, mp := range mps {
			sz[mp.id] = tb.size(mp, 64)
		}
		sort.SliceStable(mps, func(i, j int) bool {
			si, sj := tb.structural[mps[i].id], tb.structural[mps[j].id]
			if si != sj {
				return si // syntactic matches of the whole pattern before arithmetic solutions
			}
			return sz[mps[i].id] < sz[mps[j].id]
		})
		for _, mp := range mps {
			if len(pts) < 10 {
				pts = append(pts, mp)
			}
		}
		for _, sp := range points {
			dup := false
			for _, p := range pts {
				if p == sp {
					dup = true
				}
			}
			if !dup && len(pts) < 14 {
				pts = append(pts, sp)
			}
		}
		if os.Getenv("GOVC_AIDDEBUG") != "" {
			fmt.Fprintf(os.Stderr, "inst depth=%d var=%s points=%d (match %d)\n", depth, v.name, len(pts), len(tb.matchPoints(body, v, apps)))
		}
		var cs []*Term
		for _, p := range pts {
			if p.sort != v.sort {
				continue
			}
			cs = append(cs, tb.InstAll(tb.Subst(body, v, p), points, apps, depth-1, pol))
		}
		return tb.And(cs...)
	case "and":
		var as []*Term
		for _, a := range h.args {
			as = append(as, tb.InstAll(a, points, apps, depth, pol))
		}
		return tb.And(as...)
	case "or":
		var as []*Term
		for _, a := range h.args {
			as = append(as, tb.InstAll(a, points, apps, depth, pol))
		}
		return tb.Or(as...)
	case "not":
		return tb.Not(tb.InstAll(h.args[0], points, apps, depth, -pol))
	case "=>":
		return tb.Implies(tb.InstAll(h.args[0], points, apps, depth, -pol), tb.InstAll(h.args[1], points, apps, depth, pol))
	case "ite":
		if h.sort.K == KBool && !h.args[0].hasQ {
			return tb.Ite(h.args[0], tb.InstAll(h.args[1], points, apps, depth, pol), tb.InstAll(h.args[2], points, apps, depth, pol))
		}
	}
	return h
}

var usePatterns = os.Getenv("GOVC_NOPATTERNS") == ""

// patternsFor: E-matching triggers for a quantifier: the array reads of its body that mention its variable and no
// variable bound further inside.
func (tb *TB) patternsFor(q *Term) []*Term {
	v, body := q.args[0], q.args[1]
	inner := map[*Term]bool{}
	seen := map[int]bool{}
	var scan func(x *Term)
	scan = func(x *Term) {
		if seen[x.id] {
			return
		}
		seen[x.id] = true
		if x.op == "forall" {
			inner[x.args[0]] = true
		}
		for _, a := range x.args {
			scan(a)
		}
	}
	scan(body)
	var out []*Term
	got := map[int]bool{}
	seen2 := map[int]bool{}
	var mentionsInner func(x *Term) bool
	mentionsInner = func(x *Term) bool {
		if inner[x] {
			return true
		}
		if !x.hasBound {
			return false
		}
		for _, a := range x.args {
			if mentionsInner(a) {
				return true
			}
		}
		return false
	}
	var rec func(x *Term)
	rec = func(x *Term) {
		if seen2[x.id] || !x.hasBound {
			return
		}
		seen2[x.id] = true
		if x.op == "app" && tb.mentions(x, v) && !mentionsInner(x) && !got[x.id] && len(out) < 6 {
			got[x.id] = true
			out = append(out, x)
			return
		}
		for _, a := range x.args {
			rec(a)
		}
	}
	rec(body)
	return out
}

// size: number of distinct nodes of t, capped.
func (tb *TB) size(t *Term, limit int) int {
	seen := map[int]bool{}
	var rec func(x *Term)
	rec = func(x *Term) {
		if seen[x.id] || len(seen) >= limit {
			return
		}
		seen[x.id] = true
		for _, a := range x.args {
			rec(a)
		}
	}
	rec(t)
	return len(seen)
}
