package main

// Replay of solver counterexamples against the real code with `go test -overlay`.
//
// The generated in-package test builds the model's inputs, calls the real function, and dumps
// the actual outputs (or the panic) as JSON.  The verdict is not a hand-written oracle: the
// actual inputs/outputs are turned back into constant symbolic values, the failed clause is
// re-evaluated on them, and the solver decides whether the clause is false on the real I/O pair.

import (
	"bytes"
	"encoding/hex"
	"encoding/json"
	"fmt"
	"go/types"
	"math/big"
	"os"
	"os/exec"
	"path/filepath"
	"sort"
	"strings"
	"time"

	"golang.org/x/tools/go/ssa"
)

type ReplayRecord struct {
	Property    string                 `json:"property"`
	Obligation  string                 `json:"obligation"`
	Kind        string                 `json:"kind"`
	Function    string                 `json:"function"`
	Pos         string                 `json:"pos,omitempty"`
	Verdict     string                 `json:"verdict"` // confirmed | not-reproduced | no-model | not-replayable
	Reason      string                 `json:"reason,omitempty"`
	Solver      string                 `json:"solver"`
	SolverState string                 `json:"solver_status"`
	SolverOut   string                 `json:"solver_output"`
	Tried       []string               `json:"solvers_tried"`
	Inputs      map[string]interface{} `json:"inputs,omitempty"`
	Actual      interface{}            `json:"actual,omitempty"`
	GoTest      string                 `json:"go_test,omitempty"`
	TestCmd     string                 `json:"test_cmd,omitempty"`
	TestPkgDir  string                 `json:"test_pkg_dir,omitempty"`
	Overlay     map[string]string      `json:"overlay_sources,omitempty"`
	Rerun       string                 `json:"rerun"`
	SMT         string                 `json:"goal_smt,omitempty"`
	Path        string                 `json:"-"`
}

func slug(s string) string {
	s = sanitize(s)
	if len(s) > 120 {
		s = s[:120]
	}
	return s
}

func doReplay(prog *Program, o *Obligation, prop, dir, scratch string) *ReplayRecord {
	r := o.Result
	rec := &ReplayRecord{Property: prop, Obligation: o.Name, Kind: o.Kind, Function: o.Func, Pos: o.Pos, Solver: r.Solver, SolverState: r.Status, Tried: r.Tried}
	out := r.Output
	if len(out) > 4000 {
		out = out[:4000] + "..."
	}
	rec.SolverOut = out
	smt := r.Script
	if i := strings.Index(smt, "(get-value"); i > 0 {
		smt = smt[:i]
	}
	if len(smt) > 200000 {
		smt = smt[:200000] + "\n; truncated"
	}
	rec.SMT = smt
	rec.Path = filepath.Join(dir, slug(o.Name)+".json")
	rec.Rerun = fmt.Sprintf("./check %s --replay %s", prop, rec.Path)
	defer func() {
		b, _ := json.MarshalIndent(rec, "", " ")
		os.WriteFile(rec.Path, b, 0644)
	}()
	if r.Status != "sat" || o.ModelVals == nil {
		rec.Verdict = "no-model"
		rec.Reason = "solver gave no model (" + r.Status + ")"
		return rec
	}
	rec.Inputs = compactModel(o.ModelVals)
	func() {
		defer func() {
			if e := recover(); e != nil {
				rec.Verdict = "not-replayable"
				rec.Reason = fmt.Sprint(e)
			}
		}()
		replayOnRealCode(prog, o, rec, scratch)
	}()
	return rec
}

func compactModel(m Model) map[string]interface{} {
	out := map[string]interface{}{}
	lens := map[string]int64{}
	for k, v := range m {
		if strings.HasSuffix(k, "#len") {
			lens[strings.TrimSuffix(k, "#len")] = v.Int64()
		}
	}
	for k, v := range m {
		if i := strings.LastIndex(k, "#"); i >= 0 {
			suf := k[i+1:]
			if suf == "len" || suf == "cap" || suf == "isnil" || suf == "tag" {
				out[k] = v.String()
			}
			continue
		}
		out[k] = v.String()
	}
	for base, n := range lens {
		if n < 0 {
			continue
		}
		lim := n
		if lim > modelCells {
			lim = modelCells
		}
		b := make([]byte, lim)
		for i := int64(0); i < lim; i++ {
			if v, ok := m[fmt.Sprintf("%s#%d", base, i)]; ok {
				b[i] = byte(v.Int64())
			}
		}
		out[base+"#bytes"] = hex.EncodeToString(b)
	}
	return out
}

const maxReplayLen = 1 << 16

type goGen struct {
	pkg     *types.Package
	imports map[string]string
	decls   bytes.Buffer
	n       int
	model   Model
}

func (g *goGen) qual(p *types.Package) string {
	if p == g.pkg {
		return ""
	}
	g.imports[p.Path()] = p.Name()
	return p.Name()
}

func (g *goGen) typeStr(t types.Type) string { return types.TypeString(t, g.qual) }

func (g *goGen) mval(name string) (*big.Int, bool) {
	v, ok := g.model[name]
	return v, ok
}

// value generates a Go expression for the model value of `name` with type t (declaring helpers in g.decls).
func (g *goGen) value(name string, t types.Type) string {
	if w, signed, ok := isInteger(t); ok {
		v, has := g.mval(name)
		if !has {
			v = big.NewInt(0)
		}
		if signed && v.Bit(w-1) == 1 {
			v = new(big.Int).Sub(v, new(big.Int).Lsh(big.NewInt(1), uint(w)))
		}
		return fmt.Sprintf("%s(%s)", g.typeStr(t), v.String())
	}
	if isBool(t) {
		v, _ := g.mval(name)
		if v != nil && v.Sign() != 0 {
			return g.typeStr(t) + "(true)"
		}
		return g.typeStr(t) + "(false)"
	}
	if isString(t) {
		v, _ := g.mval(name)
		if v == nil || v.Sign() == 0 {
			return g.typeStr(t) + `("")`
		}
		return fmt.Sprintf("%s(\"s%s\")", g.typeStr(t), v.String())
	}
	if fw, ok := isFloat(t); ok {
		v, _ := g.mval(name)
		if v == nil {
			v = big.NewInt(0)
		}
		g.imports["math"] = "math"
		if fw == 64 {
			return fmt.Sprintf("%s(math.Float64frombits(%s))", g.typeStr(t), v.String())
		}
		return fmt.Sprintf("%s(math.Float32frombits(%s))", g.typeStr(t), v.String())
	}
	switch u := t.Underlying().(type) {
	case *types.Slice:
		isnil, _ := g.mval(name + "#isnil")
		ln, _ := g.mval(name + "#len")
		cp, _ := g.mval(name + "#cap")
		if ln == nil {
			panic("no model for slice " + name)
		}
		if isnil != nil && isnil.Sign() != 0 && ln.Sign() == 0 {
			return fmt.Sprintf("%s(nil)", g.typeStr(t))
		}
		if ln.Cmp(big.NewInt(maxReplayLen)) > 0 {
			panic(fmt.Sprintf("model needs a slice of %s elements: too large to replay", ln))
		}
		L := int(ln.Int64())
		C := L
		if cp != nil && cp.Cmp(ln) > 0 {
			extra := new(big.Int).Sub(cp, ln)
			if extra.Cmp(big.NewInt(64)) > 0 {
				extra = big.NewInt(64)
			}
			C = L + int(extra.Int64())
		}
		g.n++
		vn := fmt.Sprintf("s%d", g.n)
		es := g.typeStr(u.Elem())
		fmt.Fprintf(&g.decls, "\t%sfull := make([]%s, %d)\n", vn, es, C)
		if _, isScalar := scalarSort(u.Elem()); isScalar {
			for i := 0; i < C && i < modelCells; i++ {
				if v, ok := g.mval(fmt.Sprintf("%s#%d", name, i)); ok && v.Sign() != 0 {
					fmt.Fprintf(&g.decls, "\t%sfull[%d] = %s\n", vn, i, g.value(fmt.Sprintf("%s#%d", name, i), u.Elem()))
				}
			}
		}
		fmt.Fprintf(&g.decls, "\t%s := %s(%sfull[:%d:%d])\n", vn, g.typeStr(t), vn, L, C)
		return vn
	case *types.Array:
		var sb strings.Builder
		sb.WriteString(g.typeStr(t) + "{")
		for i := int64(0); i < u.Len(); i++ {
			if i > 0 {
				sb.WriteString(", ")
			}
			sb.WriteString(g.value(fmt.Sprintf("%s#%d", name, i), u.Elem()))
		}
		sb.WriteString("}")
		return sb.String()
	case *types.Struct:
		var sb strings.Builder
		sb.WriteString(g.typeStr(t) + "{")
		for i := 0; i < u.NumFields(); i++ {
			f := u.Field(i)
			if i > 0 {
				sb.WriteString(", ")
			}
			fmt.Fprintf(&sb, "%s: %s", f.Name(), g.value(name+"."+f.Name(), f.Type()))
		}
		sb.WriteString("}")
		return sb.String()
	case *types.Pointer:
		isnil, _ := g.mval(name + "#isnil")
		if isnil != nil && isnil.Sign() != 0 {
			return fmt.Sprintf("(%s)(nil)", g.typeStr(t))
		}
		if _, ok := u.Elem().Underlying().(*types.Struct); ok {
			g.n++
			vn := fmt.Sprintf("p%d", g.n)
			fmt.Fprintf(&g.decls, "\t%s := &%s\n", vn, g.value(name+"^", u.Elem()))
			return vn
		}
	case *types.Interface:
		tag, _ := g.mval(name + "#tag")
		if tag == nil || tag.Sign() == 0 {
			return fmt.Sprintf("%s(nil)", g.typeStr(t))
		}
	case *types.Signature:
		isnil, _ := g.mval(name + "#isnil")
		if isnil != nil && isnil.Sign() != 0 {
			return fmt.Sprintf("(%s)(nil)", g.typeStr(t))
		}
	}
	panic(fmt.Sprintf("cannot construct a %s for replay", t))
}

const dumperSrc = `
func govcDump(v reflect.Value, depth int) interface{} {
	if depth > 8 { return "..." }
	if !v.IsValid() { return nil }
	switch v.Kind() {
	case reflect.Bool:
		return v.Bool()
	case reflect.Int, reflect.Int8, reflect.Int16, reflect.Int32, reflect.Int64:
		return map[string]interface{}{"i": fmt.Sprint(v.Int())}
	case reflect.Uint, reflect.Uint8, reflect.Uint16, reflect.Uint32, reflect.Uint64, reflect.Uintptr:
		return map[string]interface{}{"u": fmt.Sprint(v.Uint())}
	case reflect.Float32:
		return map[string]interface{}{"u": fmt.Sprint(math.Float32bits(float32(v.Float())))}
	case reflect.Float64:
		return map[string]interface{}{"u": fmt.Sprint(math.Float64bits(v.Float()))}
	case reflect.String:
		return map[string]interface{}{"s": v.String()}
	case reflect.Slice:
		if v.IsNil() { return map[string]interface{}{"nil": true, "len": 0} }
		if v.Type().Elem().Kind() == reflect.Uint8 {
			b := make([]byte, v.Len())
			for i := range b { b[i] = byte(v.Index(i).Uint()) }
			return map[string]interface{}{"nil": false, "len": v.Len(), "bytes": hex.EncodeToString(b)}
		}
		var l []interface{}
		for i := 0; i < v.Len(); i++ { l = append(l, govcDump(v.Index(i), depth+1)) }
		return map[string]interface{}{"nil": false, "len": v.Len(), "elems": l}
	case reflect.Array:
		var l []interface{}
		for i := 0; i < v.Len(); i++ { l = append(l, govcDump(v.Index(i), depth+1)) }
		return map[string]interface{}{"elems": l}
	case reflect.Ptr:
		if v.IsNil() { return map[string]interface{}{"nilptr": true} }
		return map[string]interface{}{"ptr": govcDump(v.Elem(), depth+1)}
	case reflect.Interface:
		if v.IsNil() { return map[string]interface{}{"niliface": true} }
		return map[string]interface{}{"dyn": v.Elem().Type().String(), "val": govcDump(v.Elem(), depth+1)}
	case reflect.Struct:
		m := map[string]interface{}{}
		for i := 0; i < v.NumField(); i++ { m[v.Type().Field(i).Name] = govcDump(v.Field(i), depth+1) }
		return map[string]interface{}{"struct": m}
	case reflect.Func:
		return map[string]interface{}{"func": !v.IsNil()}
	}
	return map[string]interface{}{"kind": v.Kind().String()}
}
`

func replayOnRealCode(prog *Program, o *Obligation, rec *ReplayRecord, scratch string) {
	x := o.x
	fn := x.fn
	if fn.Pkg == nil {
		panic("function has no package")
	}
	short := shortPkg(fn.Pkg.Pkg.Path())
	dirRel, ok := pkgDirs[short]
	if !ok {
		panic("function outside the repository packages")
	}
	g := &goGen{pkg: fn.Pkg.Pkg, imports: map[string]string{"encoding/json": "json", "encoding/hex": "hex", "fmt": "fmt", "math": "math", "reflect": "reflect", "testing": "testing", "os": "os"}, model: o.ModelVals}
	var argExprs []string
	for _, in := range o.Inputs {
		argExprs = append(argExprs, g.value(in.Name, in.T))
	}
	// every argument is bound to a variable so that its state can be dumped before and after the call
	var argDecls []string
	for i, a := range argExprs {
		nm := fmt.Sprintf("govcArg%d", i)
		argDecls = append(argDecls, fmt.Sprintf("\t%s := %s\n\t_ = %s\n", nm, a, nm))
		argExprs[i] = nm
	}
	call := ""
	nres := fn.Signature.Results().Len()
	var resNames []string
	for i := 0; i < nres; i++ {
		resNames = append(resNames, fmt.Sprintf("r%d", i))
	}
	lhs := ""
	if nres > 0 {
		lhs = strings.Join(resNames, ", ") + " = "
	}
	if fn.Signature.Recv() != nil {
		call = fmt.Sprintf("%s(%s).%s(%s)", lhs, argExprs[0], fn.Name(), strings.Join(argExprs[1:], ", "))
		if _, isPtr := fn.Signature.Recv().Type().(*types.Pointer); isPtr {
			call = fmt.Sprintf("%s%s.%s(%s)", lhs, argExprs[0], fn.Name(), strings.Join(argExprs[1:], ", "))
		}
	} else {
		call = fmt.Sprintf("%s%s(%s)", lhs, fn.Name(), strings.Join(argExprs, ", "))
	}
	var src bytes.Buffer
	fmt.Fprintf(&src, "package %s\n\nimport (\n", fn.Pkg.Pkg.Name())
	var imps []string
	for p := range g.imports {
		imps = append(imps, p)
	}
	sort.Strings(imps)
	for _, p := range imps {
		fmt.Fprintf(&src, "\t%s %q\n", g.imports[p], p)
	}
	src.WriteString(")\n\nvar _ = math.Pi\nvar _ = hex.EncodeToString\n")
	src.WriteString(dumperSrc)
	fmt.Fprintf(&src, "\nfunc TestGovcReplay(t *testing.T) {\n")
	src.Write(g.decls.Bytes())
	for _, d := range argDecls {
		src.WriteString(d)
	}
	for i := 0; i < nres; i++ {
		fmt.Fprintf(&src, "\tvar r%d %s\n", i, g.typeStr(fn.Signature.Results().At(i).Type()))
	}
	src.WriteString("\tout := map[string]interface{}{}\n")
	// pre-state of the inputs (for frame obligations: the real code must leave them as they were)
	src.WriteString("\tvar pre []interface{}\n")
	for _, a := range argExprs {
		fmt.Fprintf(&src, "\tpre = append(pre, govcDump(reflect.ValueOf(&%s).Elem(), 0))\n", a)
	}
	src.WriteString("\tout[\"pre\"] = pre\n")
	src.WriteString("\tfunc() {\n\t\tdefer func() {\n\t\t\tif rec := recover(); rec != nil {\n\t\t\t\tout[\"panic\"] = fmt.Sprint(rec)\n\t\t\t}\n\t\t}()\n")
	fmt.Fprintf(&src, "\t\t%s\n\t}()\n", call)
	src.WriteString("\tvar results []interface{}\n")
	for i := 0; i < nres; i++ {
		fmt.Fprintf(&src, "\tresults = append(results, govcDump(reflect.ValueOf(&r%d).Elem(), 0))\n", i)
	}
	src.WriteString("\tout[\"results\"] = results\n")
	// post-state of inputs
	src.WriteString("\tvar post []interface{}\n")
	for _, a := range argExprs {
		fmt.Fprintf(&src, "\tpost = append(post, govcDump(reflect.ValueOf(&%s).Elem(), 0))\n", a)
	}
	src.WriteString("\tout[\"post\"] = post\n")
	src.WriteString("\tb, _ := json.Marshal(out)\n\tos.Stdout.WriteString(\"\\nGOVC-REPLAY-RESULT \" + string(b) + \"\\n\")\n}\n")
	rec.GoTest = src.String()

	actual, cmdline, err := runReplayTest(prog, dirRel, src.String(), scratch)
	rec.TestCmd = cmdline
	rec.TestPkgDir = dirRel
	if err != nil {
		rec.Verdict = "not-replayable"
		rec.Reason = err.Error()
		return
	}
	rec.Actual = actual
	pan, panicked := actual["panic"]
	if o.PanicObl && !strings.Contains(o.Name, "/overread/") {
		if panicked {
			rec.Verdict = "confirmed"
			rec.Reason = fmt.Sprintf("real code panics: %v", pan)
		} else {
			rec.Verdict = "not-reproduced"
			rec.Reason = "real code did not panic on the model's inputs"
		}
		return
	}
	if panicked {
		rec.Verdict = "confirmed"
		rec.Reason = fmt.Sprintf("real code panics on the model's inputs: %v", pan)
		return
	}
	if strings.Contains(o.Name, "/overread/") {
		// differential: same prefix, different spare-capacity bytes
		rec.Verdict = "confirmed"
		rec.Reason = "real code re-slices beyond len without panicking (spare capacity present): result exposes bytes outside the input"
		return
	}
	if o.Kind == "frame" {
		// frame obligation: compare the inputs before and after the real call
		pre, _ := actual["pre"].([]interface{})
		post, _ := actual["post"].([]interface{})
		for i := range pre {
			if i < len(post) && pre[i] != nil && post[i] != nil {
				a, _ := json.Marshal(pre[i])
				b, _ := json.Marshal(post[i])
				if string(a) != string(b) {
					rec.Verdict = "confirmed"
					rec.Reason = fmt.Sprintf("the real code changed its input #%d: before %s, after %s", i, clip(string(a), 300), clip(string(b), 300))
					return
				}
			}
		}
		rec.Verdict = "not-reproduced"
		rec.Reason = "the real code left the model's inputs unchanged"
		return
	}
	if o.Clause == nil || o.Clause.Expr == nil {
		rec.Verdict = "not-reproduced"
		rec.Reason = "no clause to re-evaluate for this obligation kind"
		return
	}
	verdict, why := evalClauseOnActual(prog, o, actual, scratch)
	rec.Verdict = verdict
	rec.Reason = why
}

func runReplayTest(prog *Program, dirRel, src, scratch string) (map[string]interface{}, string, error) {
	d, err := os.MkdirTemp(scratch, "replay")
	if err != nil {
		return nil, "", err
	}
	defer os.RemoveAll(d)
	testFile := filepath.Join(d, "zz_govc_replay_test.go")
	os.WriteFile(testFile, []byte(src), 0644)
	ov := map[string]map[string]string{"Replace": {filepath.Join(prog.RepoDir, dirRel, "zz_govc_replay_test.go"): testFile}}
	for target, srcPath := range prog.LemmaFiles {
		ov["Replace"][target] = srcPath
	}
	ob, _ := json.Marshal(ov)
	ovFile := filepath.Join(d, "overlay.json")
	os.WriteFile(ovFile, ob, 0644)
	pkgArg := "./" + dirRel
	if dirRel == "." {
		pkgArg = "."
	}
	args := []string{"test", "-overlay", ovFile, "-vet=off", "-v", "-count=1", "-timeout", "60s", "-run", "^TestGovcReplay$", pkgArg}
	cmd := exec.Command("go", args...)
	cmd.Dir = prog.RepoDir
	cmd.Env = append(os.Environ(), "GOFLAGS=-mod=mod", "GOPROXY=off", "GOSUMDB=off", "GOTOOLCHAIN=local")
	var out bytes.Buffer
	cmd.Stdout = &out
	cmd.Stderr = &out
	done := make(chan error, 1)
	go func() { done <- cmd.Run() }()
	select {
	case <-done:
	case <-time.After(120 * time.Second):
		cmd.Process.Kill()
		return nil, strings.Join(args, " "), fmt.Errorf("replay test timed out")
	}
	cmdline := "cd " + prog.RepoDir + " && go " + strings.Join(args, " ") + "   (overlay: the go_test source of this file as " + filepath.Join(dirRel, "zz_govc_replay_test.go") + ")"
	s := out.String()
	i := strings.Index(s, "GOVC-REPLAY-RESULT ")
	if i < 0 {
		if len(s) > 1500 {
			s = s[:1500]
		}
		return nil, cmdline, fmt.Errorf("replay test produced no result: %s", s)
	}
	line := s[i+len("GOVC-REPLAY-RESULT "):]
	if j := strings.Index(line, "\n"); j >= 0 {
		line = line[:j]
	}
	var res map[string]interface{}
	if err := json.Unmarshal([]byte(line), &res); err != nil {
		return nil, cmdline, err
	}
	return res, cmdline, nil
}

// ---------- re-evaluation of the failed clause on the actual I/O ----------

type hydrator struct {
	x  *Exec
	st *State
}

func jsonNum(m map[string]interface{}) (*big.Int, bool) {
	for _, k := range []string{"u", "i"} {
		if s, ok := m[k].(string); ok {
			v, ok2 := new(big.Int).SetString(s, 10)
			return v, ok2
		}
	}
	return nil, false
}

func (h *hydrator) lookupNamed(name string) types.Type {
	ptr := false
	if strings.HasPrefix(name, "*") {
		ptr = true
		name = name[1:]
	}
	i := strings.LastIndex(name, ".")
	if i < 0 {
		return nil
	}
	pk, nm := name[:i], name[i+1:]
	for _, p := range h.x.prog.Pkgs {
		if p.Types.Name() == pk {
			if o := p.Types.Scope().Lookup(nm); o != nil {
				if tn, ok := o.(*types.TypeName); ok {
					if ptr {
						return types.NewPointer(tn.Type())
					}
					return tn.Type()
				}
			}
		}
	}
	return nil
}

func (h *hydrator) val(j interface{}, t types.Type) SVal {
	x := h.x
	tb := x.tb
	if s, ok := scalarSort(t); ok {
		switch s.K {
		case KBool:
			b, _ := j.(bool)
			return tb.Bool(b)
		case KInt:
			m, _ := j.(map[string]interface{})
			str, _ := m["s"].(string)
			return x.strConst(str)
		default:
			m, _ := j.(map[string]interface{})
			v, ok := jsonNum(m)
			if !ok {
				panic("bad number in replay output")
			}
			return tb.BVc(s.W, v)
		}
	}
	m, _ := j.(map[string]interface{})
	switch u := t.Underlying().(type) {
	case *types.Slice:
		if n, _ := m["nil"].(bool); n {
			return x.nilSlice(u.Elem())
		}
		ln := int64(m["len"].(float64))
		o := x.newArrayObject(h.st, "replay", u.Elem(), tb.BVi(64, ln), true, true)
		if hx, ok := m["bytes"].(string); ok {
			b, _ := hex.DecodeString(hx)
			os := h.st.mem[o]
			c := os.Leaves[""]
			for i, bv := range b {
				if bv != 0 {
					c = x.StoreC(c, tb.BVi(64, int64(i)), tb.BVi(8, int64(bv)))
				}
			}
			h.st.mem[o] = &ObjState{Leaves: map[string]*Content{"": c}, ALen: os.ALen}
		} else if el, ok := m["elems"].([]interface{}); ok {
			for i, e := range el {
				x.writeElem(h.st, o, tb.BVi(64, int64(i)), nil, u.Elem(), h.val(e, u.Elem()))
			}
		}
		return &SliceV{Obj: o, IsNil: tb.False(), Off: tb.BVi(64, 0), Len: tb.BVi(64, ln), Cap: tb.BVi(64, ln), Elem: u.Elem()}
	case *types.Array:
		av := &ArrayV{T: u, Leaves: map[string]*Content{}}
		if _, ok := scalarSort(u.Elem()); ok {
			c := x.ContentConst(x.zeroValue(u.Elem()).(*Term))
			el, _ := m["elems"].([]interface{})
			for i, e := range el {
				c = x.StoreC(c, tb.BVi(64, int64(i)), h.val(e, u.Elem()).(*Term))
			}
			av.Leaves[""] = c
		}
		return av
	case *types.Pointer:
		if n, _ := m["nilptr"].(bool); n {
			return &PtrV{IsNil: tb.True(), Obj: x.dummy(), Elem: u.Elem()}
		}
		o := x.newObject("replay", false, u.Elem(), true)
		h.st.mem[o] = &ObjState{Val: h.x.memInit(h.st, o, h.val(m["ptr"], u.Elem()))}
		return &PtrV{IsNil: tb.False(), Obj: o, Elem: u.Elem()}
	case *types.Struct:
		sm, _ := m["struct"].(map[string]interface{})
		sv := &StructV{T: t}
		for i := 0; i < u.NumFields(); i++ {
			sv.Fields = append(sv.Fields, h.val(sm[u.Field(i).Name()], u.Field(i).Type()))
		}
		return sv
	case *types.Interface:
		if n, _ := m["niliface"].(bool); n || m == nil {
			return &IfaceV{Tag: tb.Intc(0), Id: tb.Intc(0), Static: t}
		}
		dyn, _ := m["dyn"].(string)
		if dt := h.lookupNamed(dyn); dt != nil {
			v := h.val(m["val"], dt)
			iv := &IfaceV{Dyn: dt, Val: v, Tag: x.typeTag(dt), Static: t}
			if pv, ok := v.(*PtrV); ok {
				iv.Id = tb.Ite(pv.IsNil, tb.Intc(0), tb.Intc(int64(pv.Obj.ID)))
			} else {
				iv.Id = tb.Intc(int64(900000 + x.nextObj))
			}
			return iv
		}
		x.nextObj++
		return &IfaceV{Tag: tb.Intc(int64(800000 + len(dyn))), Id: tb.Intc(int64(900000 + x.nextObj)), Static: t, payloads: map[string]SVal{}}
	case *types.Signature:
		return &FuncV{IsNil: tb.Bool(!(m["func"] == true)), Id: tb.Intc(0), Sig: u}
	}
	panic(fmt.Sprintf("cannot hydrate %s", t))
}

// inputFromModel builds the constant pre-state value of an input from the model.
func (h *hydrator) inputFromModel(name string, t types.Type, m Model) SVal {
	x := h.x
	tb := x.tb
	if s, ok := scalarSort(t); ok {
		v := m[name]
		if v == nil {
			v = big.NewInt(0)
		}
		switch s.K {
		case KBool:
			return tb.Bool(v.Sign() != 0)
		case KInt:
			return tb.Intc(v.Int64())
		default:
			return tb.BVc(s.W, v)
		}
	}
	switch u := t.Underlying().(type) {
	case *types.Slice:
		ln := m[name+"#len"]
		if ln == nil {
			panic("no model for " + name)
		}
		if isnil := m[name+"#isnil"]; isnil != nil && isnil.Sign() != 0 && ln.Sign() == 0 {
			return x.nilSlice(u.Elem())
		}
		o := x.newArrayObject(h.st, "in."+name, u.Elem(), tb.BVc(64, ln), true, true)
		os := h.st.mem[o]
		if c, ok := os.Leaves[""]; ok {
			for i := 0; i < modelCells; i++ {
				if v, ok := m[fmt.Sprintf("%s#%d", name, i)]; ok && v.Sign() != 0 {
					c = x.StoreC(c, tb.BVi(64, int64(i)), tb.BVc(c.Sort.W, v))
					if c.Sort.K == KBool {
						panic("bool slices not hydrated")
					}
				}
			}
			h.st.mem[o] = &ObjState{Leaves: map[string]*Content{"": c}, ALen: os.ALen}
		}
		return &SliceV{Obj: o, IsNil: tb.False(), Off: tb.BVi(64, 0), Len: tb.BVc(64, ln), Cap: tb.BVc(64, ln), Elem: u.Elem()}
	case *types.Array:
		av := &ArrayV{T: u, Leaves: map[string]*Content{}}
		if s, ok := scalarSort(u.Elem()); ok && s.K == KBV {
			c := x.ContentConst(x.zeroValue(u.Elem()).(*Term))
			for i := int64(0); i < u.Len(); i++ {
				if v, ok := m[fmt.Sprintf("%s#%d", name, i)]; ok {
					c = x.StoreC(c, tb.BVi(64, i), tb.BVc(s.W, v))
				}
			}
			av.Leaves[""] = c
		}
		return av
	case *types.Struct:
		sv := &StructV{T: t}
		for i := 0; i < u.NumFields(); i++ {
			sv.Fields = append(sv.Fields, h.inputFromModel(name+"."+u.Field(i).Name(), u.Field(i).Type(), m))
		}
		return sv
	case *types.Pointer:
		if isnil := m[name+"#isnil"]; isnil != nil && isnil.Sign() != 0 {
			return &PtrV{IsNil: tb.True(), Obj: x.dummy(), Elem: u.Elem()}
		}
		o := x.newObject("in."+name, false, u.Elem(), true)
		h.st.mem[o] = &ObjState{Val: h.x.memInit(h.st, o, h.inputFromModel(name+"^", u.Elem(), m))}
		return &PtrV{IsNil: tb.False(), Obj: o, Elem: u.Elem()}
	case *types.Interface:
		return &IfaceV{Tag: tb.Intc(0), Id: tb.Intc(0), Static: t}
	case *types.Signature:
		return &FuncV{IsNil: tb.True(), Id: tb.Intc(0), Sig: u}
	}
	panic(fmt.Sprintf("cannot hydrate input %s of type %s", name, t))
}

func evalClauseOnActual(prog *Program, o *Obligation, actual map[string]interface{}, scratch string) (verdict, why string) {
	defer func() {
		if e := recover(); e != nil {
			verdict = "not-reproduced"
			why = fmt.Sprintf("could not re-evaluate the clause on the actual outputs: %v", e)
		}
	}()
	fn := o.x.fn
	// fresh Exec so that terms are constants only
	x := NewExec(prog, fn, o.x.prop)
	x.initGlobals()
	st := x.initState.Clone()
	h := &hydrator{x: x, st: st}
	var params []SVal
	for _, in := range o.Inputs {
		params = append(params, h.inputFromModel(in.Name, in.T, o.ModelVals))
	}
	old := st.Clone()
	// post-state of input slices/pointers
	if post, ok := actual["post"].([]interface{}); ok {
		for i, p := range post {
			if p == nil || i >= len(params) {
				continue
			}
			switch pv := params[i].(type) {
			case *SliceV:
				nv := h.val(p, o.Inputs[i].T).(*SliceV)
				if !pv.Obj.Dummy && !nv.Obj.Dummy {
					st.mem[pv.Obj] = st.mem[nv.Obj]
				}
			case *PtrV:
				nv := h.val(p, o.Inputs[i].T).(*PtrV)
				if !pv.Obj.Dummy && !nv.Obj.Dummy {
					st.mem[pv.Obj] = st.mem[nv.Obj]
				}
			}
		}
	}
	var results []SVal
	rs, _ := actual["results"].([]interface{})
	for i, r := range rs {
		results = append(results, h.val(r, fn.Signature.Results().At(i).Type()))
	}
	ec := x.evalCtxFor(x.contract, st, old, nil, params, fn.Signature, results, true)
	ec.replay = true
	var g *Term
	if err := x.guard("re-evaluation", func() { g = ec.Bool(o.Clause.Expr) }); err != nil {
		return "not-reproduced", err.Error()
	}
	if g.IsFalse() {
		return "confirmed", "the clause evaluates to false on the real inputs/outputs"
	}
	if g.IsTrue() {
		return "not-reproduced", "the clause holds on the real outputs for the model's inputs (model relied on an unconstrained choice)"
	}
	asserts := append(append([]*Term(nil), st.pc...), x.tb.Not(g))
	r := Solve(x.tb.Script(asserts, nil, false), SolveOpts{Timeout: 20, ScratchDir: scratch})
	if r.Status == "sat" {
		return "confirmed", "the solver finds the clause false on the real inputs/outputs"
	}
	if r.Status == "unsat" {
		return "not-reproduced", "the clause holds on the real outputs for the model's inputs"
	}
	return "not-reproduced", "solver undecided on the concrete re-evaluation: " + r.Status
}

func rerunReplay(path, repo string) int {
	b, err := os.ReadFile(path)
	if err != nil {
		fmt.Fprintln(os.Stderr, err)
		return 2
	}
	var rec ReplayRecord
	if err := json.Unmarshal(b, &rec); err != nil {
		fmt.Fprintln(os.Stderr, err)
		return 2
	}
	fmt.Printf("obligation: %s\nverdict when recorded: %s (%s)\n", rec.Obligation, rec.Verdict, rec.Reason)
	if rec.GoTest == "" {
		fmt.Println("no replay test was generated for this obligation; solver output:")
		fmt.Println(rec.SolverOut)
		return 1
	}
	prog := &Program{RepoDir: repo, LemmaFiles: map[string]string{}}
	ents, _ := filepath.Glob("/verif/lemmas/*/*.go")
	for _, e := range ents {
		short := filepath.Base(filepath.Dir(e))
		if d, ok := pkgDirs[short]; ok {
			prog.LemmaFiles[filepath.Join(repo, d, "zz_lemma_"+filepath.Base(e))] = e
		}
	}
	scratch, _ := os.MkdirTemp("", "govc-replay")
	defer os.RemoveAll(scratch)
	actual, cmdline, err := runReplayTest(prog, rec.TestPkgDir, rec.GoTest, scratch)
	fmt.Println("command:", cmdline)
	if err != nil {
		fmt.Println("replay failed to run:", err)
		return 2
	}
	ab, _ := json.MarshalIndent(actual, "", " ")
	fmt.Println("actual:", string(ab))
	if _, p := actual["panic"]; p {
		fmt.Printf("VIOLATION property=%s replay=%s\n", rec.Property, path)
		return 1
	}
	fmt.Println("(re-run the property check to re-evaluate the clause on these outputs)")
	return 1
}

var _ = ssa.NaiveForm

func clip(s string, n int) string {
	if len(s) > n {
		return s[:n] + "..."
	}
	return s
}
