package main

// Verification of one function (or lemma procedure) against its contract.

import (
	"fmt"
	"go/token"
	"go/types"
	"strings"

	"golang.org/x/tools/go/ssa"
)

// initGlobals symbolically executes the package initialisers of the repo packages once, to obtain
// the initial contents of package-level variables (sentinel errors, tables).
func (x *Exec) initGlobals() {
	st := &State{mem: map[*Object]*ObjState{}, ghost: map[string]SVal{}, cuts: map[string]bool{}}
	x.initState = st
	saveSafety := x.safetyOn
	x.safetyOn = false
	for _, short := range []string{"packet", "modbus", "server"} {
		sp := x.prog.SSAPkgs[short]
		if sp == nil {
			continue
		}
		// create global objects with zero values
		for _, m := range sp.Members {
			if g, ok := m.(*ssa.Global); ok {
				elem := g.Type().(*types.Pointer).Elem()
				o := x.newObject(g.Name(), false, elem, true)
				o.Global = true
				if at, isA := elem.Underlying().(*types.Array); isA {
					o.Array = true
					o.Elem = at.Elem()
					os := &ObjState{Leaves: map[string]*Content{}, ALen: x.tb.BVi(64, at.Len())}
					leaves, _ := leafPaths(at.Elem())
					for _, l := range leaves {
						os.Leaves[l.Key] = x.ContentConst(x.zeroValue(l.T).(*Term))
					}
					st.mem[o] = os
				} else {
					st.mem[o] = &ObjState{Val: x.memInit(st, o, x.zeroValue(elem))}
				}
				x.globals[g] = o
			}
		}
	}
	for _, short := range []string{"packet", "modbus", "server"} {
		sp := x.prog.SSAPkgs[short]
		if sp == nil {
			continue
		}
		initFn := sp.Func("init")
		if initFn == nil || initFn.Blocks == nil {
			continue
		}
		fr := x.newFrame(initFn, nil, 0, false)
		var final *State
		n := 0
		// the init guard is false on first run
		x.runBlock(fr, initFn.Blocks[0], nil, st, func(s2 *State, _ []SVal) {
			// keep the path where the guard was false (the one that performed the stores)
			if n == 0 || len(s2.events) >= 0 {
				if final == nil || len(s2.mem) > len(final.mem) {
					final = s2
				}
			}
			n++
		})
		if final != nil {
			// drop the path condition about init$guard; keep memory
			var pc []*Term
			for _, t := range final.pc {
				if !strings.Contains(x.tb.Show(t), "init$guard") {
					pc = append(pc, t)
				}
			}
			final.pc = pc
			st = final
			x.initState = st
		}
	}
	// everything allocated during init is pre-existing global state
	for o := range x.initState.mem {
		o.Pre = true
		o.Global = true
	}
	x.initState.cuts = map[string]bool{}
	x.initState.events = nil
	x.initState.defers = nil
	x.safetyOn = saveSafety
	x.obls = nil
	x.warnings = map[string]bool{}
	x.unmodelled = map[string]bool{}
	x.inlined = map[string]bool{}
	x.builtinModels = map[string]bool{}
}

type VerifyResult struct {
	Key           string
	Obls          []*Obligation
	Paths         int
	Returns       int
	Aborted       string
	Warnings      []string
	Unmodelled    []string
	Inlined       []string
	UsedContracts []string
	Models        []string
	Covers        []*Obligation
	AnteCovers    []*Obligation
	Trusted       bool
}

func hasLabel(cls []*Clause, kind, prop string) bool {
	for _, cl := range cls {
		if cl.Kind == kind && (prop == "" || cl.HasLabel(prop)) {
			return true
		}
	}
	return false
}

// Verify runs the symbolic execution of x.fn and collects obligations for property x.prop.
func (x *Exec) Verify() (res *VerifyResult) {
	c := x.contract
	res = &VerifyResult{Key: x.key}
	if c == nil {
		res.Aborted = "no contract"
		return res
	}
	if c.Trusted {
		res.Trusted = true
		return res
	}
	fn := x.fn
	if fn.Blocks == nil {
		res.Aborted = "no body"
		return res
	}
	defer func() {
		if r := recover(); r != nil {
			if se, ok := r.(specError); ok {
				res.Aborted = "contract error: " + se.msg
				return
			}
			panic(r)
		}
	}()
	x.initGlobals()
	// safety / noOverread / lock discipline switches from clauses
	for _, cl := range c.Clauses {
		switch cl.Kind {
		case "safety":
			if x.prop == "" || cl.HasLabel(x.prop) {
				x.safetyOn = true
			}
		case "noOverread":
			if x.prop == "" || cl.HasLabel(x.prop) {
				x.noOverread = true
			}
		}
	}
	if strings.Contains(c.Sig, "lemma") {
		// lemma procedures: safety is always on (a panic inside a lemma is a failed lemma)
		x.safetyOn = true
	}
	st := x.initState.Clone()
	// ghost variables declared in the spec library: arbitrary initial values
	if x.ghostDecl == nil {
		x.ghostDecl = map[string]types.Type{}
	}
	gctx := &EvalCtx{x: x, st: st, old: st, names: map[string]EV{}}
	for _, g := range x.prog.Ghosts {
		gt := gctx.resolveType(g.Type)
		x.ghostDecl[g.Name] = gt
		st.ghost[g.Name] = x.symbolic(st, gt, "ghost."+g.Name, true, 0)
		x.ghostBound(st, g.Name)
	}
	// parameters
	var params []SVal
	for _, p := range fn.Params {
		v := x.symbolic(st, p.Type(), p.Name(), true, 0)
		params = append(params, v)
		x.inputs = append(x.inputs, NamedVal{Name: p.Name(), Val: v, T: p.Type()})
	}
	fr := x.newFrame(fn, params, 0, true)
	fr.contract = c
	// closures verified on their own: captured variables are arbitrary cells
	x.freeVarNames = map[string]EV{}
	for _, fv := range fn.FreeVars {
		pv := x.symbolic(st, fv.Type(), fv.Name(), true, 0)
		if p, ok := pv.(*PtrV); ok {
			p.IsNil = x.tb.False()
			fr.env[fv] = p
			x.freeVarNames[fv.Name()] = EV{V: x.load(st, p, p.Elem), T: p.Elem}
		} else {
			fr.env[fv] = pv
			x.freeVarNames[fv.Name()] = EV{V: pv, T: fv.Type()}
		}
	}
	// requires
	sig := fn.Signature
	ecReq := x.evalCtxFor(c, st, st, nil, params, sigWithRecv(fn), nil, false)
	for _, cl := range c.ByKind("requires") {
		st.Assume(ecReq.Bool(cl.Expr))
	}
	entry := st.Clone()
	fr.entry = entry
	x.entryMem = entry.mem
	x.lockDiscipline = hasLabel(c.Clauses, "lockdiscipline", x.prop)
	x.structuralOn = hasLabel(c.Clauses, "structural", x.prop)
	x.guarded = map[string]bool{}
	for _, cl := range c.ByKind("guarded") {
		if x.prop == "" || cl.HasLabel(x.prop) {
			for _, n := range cl.Names {
				x.guarded[n] = true
			}
		}
	}
	// shared[P] f, g: fields written under the mutex by some method: other goroutines may change them whenever the
	// mutex is not held, so they are havocked at every acquisition and exempt from this function's frame
	x.shared = map[string]bool{}
	for _, cl := range c.ByKind("shared") {
		if x.prop == "" || cl.HasLabel(x.prop) {
			for _, n := range cl.Names {
				x.shared[n] = true
			}
		}
	}
	_ = sig
	x.runBlock(fr, fn.Blocks[0], nil, st, func(s2 *State, results []SVal) {
		x.returns++
		x.atReturn(fr, c, entry, s2, params, results)
	})
	res.Obls = x.obls
	res.Returns = x.returns
	res.Aborted = x.aborted
	res.Warnings = sortedKeys(x.warnings)
	res.Unmodelled = sortedKeys(x.unmodelled)
	res.Inlined = sortedKeys(x.inlined)
	res.UsedContracts = sortedKeys(x.usedContracts)
	res.Models = sortedKeys(x.builtinModels)
	res.Covers = x.covers
	res.AnteCovers = x.anteCovers
	return res
}

// sigWithRecv returns a signature whose params include the receiver first (matching fn.Params).
func sigWithRecv(fn *ssa.Function) *types.Signature {
	return fn.Signature
}

func (x *Exec) atReturn(fr *Frame, c *Contract, entry, st *State, params, results []SVal) {
	tb := x.tb
	fn := fr.fn
	// cover: this return site is reachable
	cov := &Obligation{Name: fmt.Sprintf("%s/cover/return#%d", x.key, x.returns), Kind: "cover", Func: x.key, Goal: tb.False(), x: x}
	cov.Asserts = append([]*Term(nil), st.pc...)
	x.covers = append(x.covers, cov)

	sig := fn.Signature
	// loop ghosts of the function's own frame (their last bindings on this path) are visible to its ensures clauses
	if x.calleeFree == nil {
		x.calleeFree = map[*Contract]map[string]EV{}
	}
	x.retGhosts = map[string]EV{}
	for k, v := range fr.ghostLocal {
		x.retGhosts[k] = EV{V: v, T: x.ghostDecl[k]}
	}
	ec := x.evalCtxFor(c, st, entry, nil, params, sig, results, true)
	var outs []NamedVal
	for i, r := range results {
		nm := fmt.Sprintf("res%d", i)
		if i < len(c.Results) {
			nm = c.Results[i].Name
		}
		outs = append(outs, NamedVal{Name: nm, Val: r, T: sig.Results().At(i).Type()})
	}
	for _, cl := range c.ByKind("ensures") {
		if x.prop != "" && !cl.HasLabel(x.prop) {
			continue
		}
		cl := cl
		if err := x.guard(fmt.Sprintf("%s:%d ensures", cl.File, cl.Line), func() {
			g := ec.Bool(cl.Expr)
			o := x.addObl(st, fmt.Sprintf("%s/ensures%s(%s)", x.key, cl.LabelString(), cl.Text), "ensures", g, token.NoPos, cl.Labels)
			o.Clause = cl
			o.Outputs = outs
			// vacuity probe: the antecedent of an implication must be satisfiable at some return site
			// (also implications that are conjuncts of the clause, or nested in the consequent of another one)
			{
				nprobe := 0
				var walk func(e *Expr, outer []*Term)
				walk = func(e *Expr, outer []*Term) {
					if e == nil || e.Op != "bin" {
						return
					}
					switch e.Name {
					case "&&":
						walk(e.Args[0], outer)
						walk(e.Args[1], outer)
					case "==>":
						eca := x.evalCtxFor(c, st, entry, nil, params, sig, results, false)
						var ante *Term
						if err := x.guard("antecedent probe", func() { ante = eca.Bool(e.Args[0]) }); err != nil || ante == nil {
							return
						}
						name := o.Name
						if nprobe > 0 {
							name = fmt.Sprintf("%s#antecedent%d(%s)", o.Name, nprobe, e.Args[0].String())
						}
						nprobe++
						cv := &Obligation{Name: name, Kind: "cover-ante", Func: x.key, Goal: tb.False(), x: x}
						cv.Asserts = append(append(append([]*Term(nil), st.pc...), outer...), ante)
						x.anteCovers = append(x.anteCovers, cv)
						walk(e.Args[1], append(append([]*Term(nil), outer...), ante))
					}
				}
				walk(cl.Expr, nil)
			}
			o.Detail = fmt.Sprintf("return#%d", x.returns)
			// later clauses may use earlier ones (each is proved separately, so the conjunction holds):
			// assume this clause in hypothesis form for the clauses that follow
			if !hasOpenFinding(x.findings, x.prop, o.Name) {
				eca := x.evalCtxFor(c, st, entry, nil, params, sig, results, false)
				st.Assume(eca.Bool(cl.Expr))
			}
			for _, f := range x.findings {
				if f.Status != "open" || (f.Property != x.prop && x.depOf == "") || f.Observed == "" {
					continue
				}
				for _, pat := range f.Obligations {
					if matchObl(pat, o.Name) {
						oe, err := ParseExpr(f.Observed)
						if err != nil {
							specFail("known finding %s: observed: %v", f.ID, err)
						}
						ec2 := x.evalCtxFor(c, st, entry, nil, params, sig, results, true)
						o.Observed = ec2.Bool(oe)
					}
				}
			}
		}); err != nil {
			x.contractError(err)
			return
		}
	}
	// frame: modifies
	mods := c.ByKind("modifies")
	checkFrame := false
	for _, m := range mods {
		if x.prop == "" || m.HasLabel(x.prop) {
			checkFrame = true
		}
	}
	if checkFrame {
		allowed := map[*Object]*SliceV{}
		whole := map[*Object]bool{}
		exempt := map[*Object][][]int{}
		ecm := x.evalCtxFor(c, entry, entry, nil, params, sig, nil, false)
		var labels []string
		for _, m := range mods {
			labels = append(labels, m.Labels...)
			for _, me := range m.Exprs {
				me := me
				if me.Op == "ident" {
					if _, isGhost := x.ghostDecl[me.Name]; isGhost {
						continue
					}
				}
				_ = x.guard("modifies", func() {
					if me.Op == "call" && me.Args[0].Op == "ident" && me.Args[0].Name == "hdr" {
						// the header of a slice-typed field (not its cells)
						if loc := ecm.evalLoc(me.Args[1]); loc != nil && !loc.Obj.Array {
							exempt[loc.Obj] = append(exempt[loc.Obj], loc.Path)
						}
						return
					}
					v := ecm.Eval(me)
					switch lv := v.V.(type) {
					case *SliceV:
						allowed[lv.Obj] = lv
						var nest func(o *Object, off, ln *Term)
						nest = func(o *Object, off, ln *Term) {
							for _, no := range o.Nested {
								sh := x.tb.BVi(64, nestShift)
								noff, nln := x.tb.BVBin("bvshl", off, sh), x.tb.BVBin("bvshl", ln, sh)
								allowed[no] = &SliceV{Obj: no, Off: noff, Len: nln}
								nest(no, noff, nln)
							}
						}
						nest(lv.Obj, lv.Off, lv.Len)
					case *PtrV:
						var all func(o *Object)
						all = func(o *Object) {
							whole[o] = true
							for _, no := range o.Nested {
								all(no)
							}
						}
						all(lv.Obj)
					default:
						// a field of a single object: exempt that path only
						if loc := ecm.evalLoc(me); loc != nil && !loc.Obj.Array {
							exempt[loc.Obj] = append(exempt[loc.Obj], loc.Path)
						}
					}
				})
			}
		}
		for o, ps := range x.sharedAt {
			exempt[o] = append(exempt[o], ps...)
		}
		for o, s0 := range entry.mem {
			if !o.Pre || whole[o] {
				continue
			}
			s1, ok := st.mem[o]
			if !ok || s1 == s0 {
				continue
			}
			var g *Term
			if ps := exempt[o]; len(ps) > 0 && !o.Array {
				a, b := s0.Val, s1.Val
				for _, pth := range ps {
					b = setPath(b, pth, getPath(a, pth))
				}
				g = x.svalEq(a, b)
			} else {
				g = x.objUnchanged(o, s0, s1, allowed[o])
			}
			if g.IsTrue() {
				continue
			}
			ob := x.addObl(st, fmt.Sprintf("%s/frame(%s unchanged)", x.key, o.Name), "frame", g, token.NoPos, labels)
			ob.Outputs = outs
		}
	}
	// ghost frame: ghost variables not listed in a modifies clause keep their entry values
	{
		listed := map[string]bool{}
		for _, m := range mods {
			for _, me := range m.Exprs {
				if me.Op == "ident" {
					listed[me.Name] = true
				}
			}
		}
		for _, gs := range c.ByKind("ghostset") {
			listed[gs.Exprs[0].Name] = true
		}
		ecl := x.evalCtxFor(c, entry, entry, nil, params, sig, nil, false)
		for _, m := range mods {
			for _, me := range m.Exprs {
				me := me
				_ = x.guard("modifies", func() {
					if me.Op == "call" && me.Args[0].Op == "ident" && me.Args[0].Name == "hdr" {
						return
					}
					if pv, ok := ecl.tryEvalPtr(me); ok {
						listed[bbKey(pv)] = true
					} else {
						listed[bbKey(ecl.evalLoc(me))] = true
					}
				})
			}
		}
		for name, v1 := range st.ghost {
			if strings.HasPrefix(name, "bb:") && !listed[name] && !x.bbFresh[name] {
				// a buffer of a pre-existing object touched by this function must be listed
				if v0, ok := entry.ghost[name]; !ok || v0 != v1 {
					if bg, isB := v1.(*bbGhost); isB && bg != nil {
						x.addObl(st, fmt.Sprintf("%s/frame(buffer %s may change but is not listed in a modifies clause)", x.key, name), "frame", x.bbUnchanged(entry, st, name), token.NoPos, nil)
					}
				}
			}
		}
		for name, v0 := range entry.ghost {
			if listed[name] || strings.HasPrefix(name, "sb:") || strings.HasPrefix(name, "bb:") {
				continue
			}
			if _, declared := x.ghostDecl[name]; !declared {
				continue
			}
			if v1, ok := st.ghost[name]; ok && v1 != v0 {
				g := x.svalEq(v0, v1)
				if !g.IsTrue() {
					x.addObl(st, fmt.Sprintf("%s/frame(ghost %s may change but is not listed in a modifies clause)", x.key, name), "frame", g, token.NoPos, nil)
				}
			}
		}
	}
	// fresh results: result slices/pointers not declared as aliases must be freshly allocated
	for _, cl := range c.ByKind("fresh") {
		if x.prop != "" && !cl.HasLabel(x.prop) {
			continue
		}
		for _, fe := range cl.Exprs {
			fe := fe
			if err := x.guard("fresh", func() {
				v := ec.Eval(fe)
				var g *Term
				switch lv := v.V.(type) {
				case *SliceV:
					g = tb.Or(lv.IsNil, tb.Eq(lv.Len, tb.BVi(64, 0)), tb.Bool(!lv.Obj.Pre))
				case *PtrV:
					g = tb.Or(lv.IsNil, tb.Bool(!lv.Obj.Pre))
				case *IfaceV:
					// an interface holding a pointer: the object pointed to must have been allocated by this call
					if pv, isP := lv.Val.(*PtrV); isP && lv.Dyn != nil {
						g = tb.Or(pv.IsNil, tb.Bool(!pv.Obj.Pre))
					} else {
						g = tb.False() // a value of unknown provenance cannot be shown fresh
					}
				default:
					specFail("fresh of %T", v.V)
				}
				if cl.Expr != nil {
					g = tb.Implies(ec.Bool(cl.Expr), g)
				}
				x.addObl(st, fmt.Sprintf("%s/fresh(%s)", x.key, fe), "ensures", g, token.NoPos, cl.Labels)
			}); err != nil {
				x.contractError(err)
				return
			}
		}
	}
	// alias clauses are obligations on the callee side
	for _, cl := range c.ByKind("alias") {
		if x.prop != "" && !cl.HasLabel(x.prop) {
			continue
		}
		cl := cl
		if err := x.guard("alias", func() {
			l := ec.Eval(cl.Exprs[0])
			r := ec.Eval(cl.Exprs[1])
			ls, ok1 := l.V.(*SliceV)
			rs, ok2 := r.V.(*SliceV)
			if !ok1 || !ok2 {
				specFail("alias needs slices")
			}
			// guard: only when the enclosing result is non-nil (the lhs evaluates through a possibly nil pointer:
			// in that case the loaded zero slice is nil and the clause holds trivially)
			var g *Term
			if ls.Obj == rs.Obj {
				g = tb.And(tb.Eq(ls.Off, rs.Off), tb.Eq(ls.Len, rs.Len))
			} else {
				g = tb.And(ls.IsNil, tb.Eq(ls.Len, tb.BVi(64, 0)))
				g = tb.Or(g, tb.And(tb.Eq(ls.Len, tb.BVi(64, 0)), tb.Eq(rs.Len, tb.BVi(64, 0))))
			}
			// nil-result exemption
			if cl.Exprs[0].Op == "sel" {
				base := ec.Eval(cl.Exprs[0].Args[0])
				if pv, isP := base.V.(*PtrV); isP {
					g = tb.Or(pv.IsNil, g)
				}
			}
			if cl.Expr != nil {
				g = tb.Implies(ec.Bool(cl.Expr), g)
			}
			x.addObl(st, fmt.Sprintf("%s/alias(%s)", x.key, cl.Text), "ensures", g, token.NoPos, cl.Labels)
		}); err != nil {
			x.contractError(err)
			return
		}
	}
}

func hasOpenFinding(fs []*Finding, prop, name string) bool {
	for _, f := range fs {
		if f.Status != "open" {
			continue
		}
		for _, pat := range f.Obligations {
			if matchObl(pat, name) {
				return true
			}
		}
	}
	return false
}
