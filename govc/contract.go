package main

// Contract and spec file parsing.
//
// Contract blocks are //@ comment lines:
//   //@ func (r Registers) register(address uint16) (b []byte, err error)
//   //@   requires valid(r)
//   //@   ensures[C04] inWindow(r, address, 1) ==> err == nil
//   //@   modifies nothing
//   //@   loop 0
//   //@     invariant ...
// A clause continues on following //@ lines that do not start with a clause keyword.

import (
	"fmt"
	"regexp"
	"strconv"
	"strings"
)

type Clause struct {
	Kind   string   // requires ensures invariant modifies alias safety noOverread ghost assume_ensures fresh trusted panics
	Labels []string // property labels
	Name   string   // optional clause name (label part after '.')
	Text   string
	Expr   *Expr
	Exprs  []*Expr // for list clauses (modifies)
	Line   int
	File   string
	Names  []string // candidates
	Region *Expr // known-finding region (filled from known_findings.json)
	Observed *Expr // known behaviour inside the region (proved on the callee side, assumed by callers)
}

type LoopContract struct {
	Ordinal   int
	Invs      []*Clause
	Modifies  []*Clause
	Ghosts    []*Clause
	Decreases *Clause
	Forget    bool // drop quantified hypotheses accumulated before the loop at the cut (the invariants carry what is needed)
}

type ParamDecl struct {
	Name string
	Type string
}

type Contract struct {
	Pkg     string
	Key     string // pkg.RelString
	Sig     string
	Recv    *ParamDecl
	Params  []ParamDecl
	Results []ParamDecl
	Clauses []*Clause
	Loops   map[int]*LoopContract
	File    string
	Line    int
	IsIface bool
	Trusted bool // contract assumed, body not verified (external / bounded stand-in)
	Inline  bool // "inline" directive: callers inline the body instead of using the contract
	Extern  bool // assumed contract of a function outside the repository
}

func (c *Contract) ByKind(kind string) []*Clause {
	var out []*Clause
	for _, cl := range c.Clauses {
		if cl.Kind == kind {
			out = append(out, cl)
		}
	}
	return out
}

func (cl *Clause) HasLabel(prop string) bool {
	if len(cl.Labels) == 0 {
		return true
	}
	for _, l := range cl.Labels {
		if l == prop || strings.HasPrefix(l, prop+".") {
			return true
		}
	}
	return false
}

func (cl *Clause) LabelString() string {
	if len(cl.Labels) == 0 {
		return ""
	}
	return "[" + strings.Join(cl.Labels, ",") + "]"
}

var clauseKw = regexp.MustCompile(`^(requires|ensures|invariant|modifies|alias|safety|noOverread|ghostset|ghost|loop|trusted|inline|decreases|assume|fresh|use|candidates|lockdiscipline|guarded|shared|structural|forget)\b(\[[^\]]*\])?\s*(.*)$`)

func (p *Program) parseContractText(pkg, file, text string) error {
	lines := strings.Split(text, "\n")
	var cur *Contract
	var curLoop *LoopContract
	var curClause *Clause
	flushClause := func() error {
		if curClause == nil {
			return nil
		}
		cl := curClause
		curClause = nil
		cl.Text = strings.TrimSpace(cl.Text)
		switch cl.Kind {
		case "requires", "ensures", "invariant", "assume", "decreases":
			e, err := ParseExpr(cl.Text)
			if err != nil {
				return fmt.Errorf("%s:%d: %v in %q", file, cl.Line, err, cl.Text)
			}
			cl.Expr = e
		case "guarded", "shared":
			for _, part := range splitTop(cl.Text, ',') {
				cl.Names = append(cl.Names, strings.TrimSpace(part))
			}
		case "candidates":
			for _, part := range splitTop(cl.Text, ',') {
				cl.Names = append(cl.Names, strings.TrimSpace(part))
			}
		case "alias", "ghost", "ghostset":
			// "alias res.Data := data[9:9+n]"  / "ghost name type = expr"
			parts := strings.SplitN(cl.Text, ":=", 2)
			if len(parts) != 2 {
				return fmt.Errorf("%s:%d: %s needs ':='", file, cl.Line, cl.Kind)
			}
			if i := strings.LastIndex(parts[1], " if "); i >= 0 && cl.Kind == "alias" {
				ce, err := ParseExpr(strings.TrimSpace(parts[1][i+4:]))
				if err != nil {
					return fmt.Errorf("%s:%d: %v", file, cl.Line, err)
				}
				cl.Expr = ce
				parts[1] = parts[1][:i]
			}
			l, err := ParseExpr(strings.TrimSpace(parts[0]))
			if err != nil {
				return fmt.Errorf("%s:%d: %v", file, cl.Line, err)
			}
			r, err := ParseExpr(strings.TrimSpace(parts[1]))
			if err != nil {
				return fmt.Errorf("%s:%d: %v", file, cl.Line, err)
			}
			cl.Exprs = []*Expr{l, r}
		case "modifies", "noOverread", "fresh":
			if cl.Kind == "fresh" {
				// optional condition: fresh x, y if cond
				if i := strings.LastIndex(cl.Text, " if "); i >= 0 {
					ce, err := ParseExpr(strings.TrimSpace(cl.Text[i+4:]))
					if err != nil {
						return fmt.Errorf("%s:%d: %v", file, cl.Line, err)
					}
					cl.Expr = ce
					cl.Text = strings.TrimSpace(cl.Text[:i])
				}
			}
			if cl.Text == "nothing" || cl.Text == "" {
				cl.Exprs = nil
			} else {
				for _, part := range splitTop(cl.Text, ',') {
					e, err := ParseExpr(strings.TrimSpace(part))
					if err != nil {
						return fmt.Errorf("%s:%d: %v", file, cl.Line, err)
					}
					cl.Exprs = append(cl.Exprs, e)
				}
			}
		}
		if curLoop != nil {
			switch cl.Kind {
			case "invariant":
				curLoop.Invs = append(curLoop.Invs, cl)
			case "modifies":
				curLoop.Modifies = append(curLoop.Modifies, cl)
			case "ghost":
				curLoop.Ghosts = append(curLoop.Ghosts, cl)
			case "decreases":
				curLoop.Decreases = cl
			default:
				return fmt.Errorf("%s:%d: clause %s not allowed in loop block", file, cl.Line, cl.Kind)
			}
		} else if cur != nil {
			cur.Clauses = append(cur.Clauses, cl)
		}
		return nil
	}
	for i, ln := range lines {
		t := strings.TrimSpace(ln)
		if !strings.HasPrefix(t, "//@") {
			if err := flushClause(); err != nil {
				return err
			}
			continue
		}
		t = strings.TrimSpace(t[3:])
		if idx := strings.Index(t, " //"); idx >= 0 { // trailing comment
			t = strings.TrimSpace(t[:idx])
		}
		if t == "" {
			continue
		}
		if strings.HasPrefix(t, "func ") || strings.HasPrefix(t, "iface ") || strings.HasPrefix(t, "extern ") {
			if err := flushClause(); err != nil {
				return err
			}
			isExtern := strings.HasPrefix(t, "extern ")
			if isExtern {
				// "extern sort.Sort(data sort.Interface)": assumed contract of a function outside the repository
				t = "func " + strings.TrimSpace(t[7:])
			}
			c, err := parseSig(t)
			if err != nil {
				return fmt.Errorf("%s:%d: %v", file, i+1, err)
			}
			c.Pkg = pkg
			if isExtern {
				c.Trusted = true
				c.Extern = true
				c.File = file
				c.Line = i + 1
				c.Loops = map[int]*LoopContract{}
				p.Contracts[c.Key] = c
				cur = c
				curLoop = nil
				continue
			}
			c.File = file
			c.Line = i + 1
			c.Loops = map[int]*LoopContract{}
			if c.IsIface {
				p.Ifaces[pkg+"|"+c.Key] = c
			} else {
				c.Key = pkg + "." + c.Key
				if _, dup := p.Contracts[c.Key]; dup {
					return fmt.Errorf("%s:%d: duplicate contract for %s", file, i+1, c.Key)
				}
				p.Contracts[c.Key] = c
			}
			cur = c
			curLoop = nil
			continue
		}
		m := clauseKw.FindStringSubmatch(t)
		if m == nil {
			if curClause != nil {
				curClause.Text += " " + t
				continue
			}
			return fmt.Errorf("%s:%d: unexpected contract line %q", file, i+1, t)
		}
		if err := flushClause(); err != nil {
			return err
		}
		if cur == nil {
			return fmt.Errorf("%s:%d: clause outside func block", file, i+1)
		}
		kw, lab, rest := m[1], m[2], m[3]
		var labels []string
		if lab != "" {
			for _, l := range strings.Split(lab[1:len(lab)-1], ",") {
				labels = append(labels, strings.TrimSpace(l))
			}
		}
		switch kw {
		case "loop":
			n, err := strconv.Atoi(strings.Fields(rest)[0])
			if err != nil {
				return fmt.Errorf("%s:%d: bad loop ordinal", file, i+1)
			}
			curLoop = &LoopContract{Ordinal: n}
			cur.Loops[n] = curLoop
			continue
		case "trusted":
			cur.Trusted = true
			cur.Clauses = append(cur.Clauses, &Clause{Kind: "trusted", Text: rest, Line: i + 1, File: file})
			continue
		case "inline":
			cur.Inline = true
			continue
		case "forget":
			if curLoop == nil {
				return fmt.Errorf("%s:%d: forget outside a loop block", file, i+1)
			}
			curLoop.Forget = true
			continue
		case "safety", "lockdiscipline", "structural":
			cur.Clauses = append(cur.Clauses, &Clause{Kind: kw, Labels: labels, Text: rest, Line: i + 1, File: file})
			continue
		}
		curClause = &Clause{Kind: kw, Labels: labels, Text: rest, Line: i + 1, File: file}
	}
	return flushClause()
}

// parseSig parses "func (r T) Name(a A, b B) (x X, err error)" or "iface net.Conn.Read(p []byte) (n int, err error)".
func parseSig(t string) (*Contract, error) {
	c := &Contract{Sig: t}
	rest := t
	if strings.HasPrefix(rest, "iface ") {
		c.IsIface = true
		rest = strings.TrimSpace(rest[6:])
	} else {
		rest = strings.TrimSpace(rest[5:])
	}
	recvType := ""
	if !c.IsIface && strings.HasPrefix(rest, "(") {
		end := matchParen(rest, 0)
		if end < 0 {
			return nil, fmt.Errorf("bad receiver in %q", t)
		}
		rtxt := strings.TrimSpace(rest[1:end])
		if !strings.Contains(rtxt, " ") {
			// "(*T).name$1": a closure of a method - the key carries the type, there is no receiver parameter
			recvType = rtxt
			rest = strings.TrimPrefix(strings.TrimSpace(rest[end+1:]), ".")
		} else {
			ps, err := parseParams(rtxt)
			if err != nil || len(ps) != 1 {
				return nil, fmt.Errorf("bad receiver in %q", t)
			}
			c.Recv = &ps[0]
			recvType = ps[0].Type
			rest = strings.TrimSpace(rest[end+1:])
		}
	}
	op := strings.Index(rest, "(")
	if op < 0 {
		return nil, fmt.Errorf("missing params in %q", t)
	}
	name := strings.TrimSpace(rest[:op])
	end := matchParen(rest, op)
	if end < 0 {
		return nil, fmt.Errorf("unbalanced params in %q", t)
	}
	ps, err := parseParams(rest[op+1 : end])
	if err != nil {
		return nil, err
	}
	c.Params = ps
	rest = strings.TrimSpace(rest[end+1:])
	if rest != "" {
		if strings.HasPrefix(rest, "(") {
			e := matchParen(rest, 0)
			if e < 0 {
				return nil, fmt.Errorf("unbalanced results in %q", t)
			}
			rs, err := parseParams(rest[1:e])
			if err != nil {
				return nil, err
			}
			c.Results = rs
		} else {
			c.Results = []ParamDecl{{Name: "res", Type: rest}}
		}
	}
	if c.IsIface {
		c.Key = name
	} else if recvType != "" {
		c.Key = "(" + recvType + ")." + name
	} else {
		c.Key = name
	}
	return c, nil
}

func matchParen(s string, open int) int {
	depth := 0
	for i := open; i < len(s); i++ {
		switch s[i] {
		case '(', '[', '{':
			depth++
		case ')', ']', '}':
			depth--
			if depth == 0 {
				return i
			}
		}
	}
	return -1
}

func splitTop(s string, sep byte) []string {
	var out []string
	depth := 0
	last := 0
	for i := 0; i < len(s); i++ {
		switch s[i] {
		case '(', '[', '{':
			depth++
		case ')', ']', '}':
			depth--
		default:
			if s[i] == sep && depth == 0 {
				out = append(out, s[last:i])
				last = i + 1
			}
		}
	}
	out = append(out, s[last:])
	return out
}

func parseParams(s string) ([]ParamDecl, error) {
	s = strings.TrimSpace(s)
	if s == "" {
		return nil, nil
	}
	var out []ParamDecl
	parts := splitTop(s, ',')
	// Go style: "a, b uint16, c int" -> names without types take the following type
	var pending []string
	for _, part := range parts {
		part = strings.TrimSpace(part)
		fs := strings.SplitN(part, " ", 2)
		if len(fs) == 1 {
			pending = append(pending, fs[0])
			continue
		}
		ty := strings.TrimSpace(fs[1])
		for _, n := range pending {
			out = append(out, ParamDecl{Name: n, Type: ty})
		}
		pending = nil
		out = append(out, ParamDecl{Name: fs[0], Type: ty})
	}
	if len(pending) > 0 {
		// unnamed results: treat as types
		for i, n := range pending {
			out = append(out, ParamDecl{Name: fmt.Sprintf("res%d", i), Type: n})
		}
	}
	return out, nil
}

// ---------- spec files ----------
//
//   fun name(a T, b U) R = expr
//   ufun name(a T) R                      (uninterpreted)
// Lines may continue until the next line starting with fun/ufun/#.

type SpecFun struct {
	Name     string
	Params   []ParamDecl
	Ret      string
	Body     *Expr
	Uninterp bool
	File     string
	Line     int
}

func (p *Program) parseSpecText(file, text string) error {
	lines := strings.Split(text, "\n")
	var cur string
	curLine := 0
	flush := func() error {
		s := strings.TrimSpace(cur)
		cur = ""
		if s == "" {
			return nil
		}
		un := false
		if strings.HasPrefix(s, "ufun ") {
			un = true
			s = s[5:]
		} else if strings.HasPrefix(s, "fun ") {
			s = s[4:]
		} else {
			return fmt.Errorf("%s:%d: expected fun/ufun", file, curLine)
		}
		op := strings.Index(s, "(")
		end := matchParen(s, op)
		if op < 0 || end < 0 {
			return fmt.Errorf("%s:%d: bad spec fun header", file, curLine)
		}
		f := &SpecFun{Name: strings.TrimSpace(s[:op]), Uninterp: un, File: file, Line: curLine}
		ps, err := parseParams(s[op+1 : end])
		if err != nil {
			return err
		}
		f.Params = ps
		rest := strings.TrimSpace(s[end+1:])
		if un {
			f.Ret = rest
		} else {
			eq := strings.Index(rest, "=")
			if eq < 0 {
				return fmt.Errorf("%s:%d: missing '=' in fun %s", file, curLine, f.Name)
			}
			f.Ret = strings.TrimSpace(rest[:eq])
			e, err := ParseExpr(strings.TrimSpace(rest[eq+1:]))
			if err != nil {
				return fmt.Errorf("%s:%d: %v", file, curLine, err)
			}
			f.Body = e
		}
		if _, dup := p.Specs[f.Name]; dup {
			return fmt.Errorf("%s:%d: duplicate spec fun %s", file, curLine, f.Name)
		}
		p.Specs[f.Name] = f
		return nil
	}
	for i, ln := range lines {
		t := strings.TrimSpace(ln)
		if strings.HasPrefix(t, "#") || t == "" {
			continue
		}
		if strings.HasPrefix(t, "ghost ") {
			if err := flush(); err != nil {
				return err
			}
			f := strings.Fields(t)
			if len(f) != 3 {
				return fmt.Errorf("%s:%d: ghost declaration: ghost <name> <type>", file, i+1)
			}
			p.Ghosts = append(p.Ghosts, ParamDecl{Name: f[1], Type: f[2]})
			continue
		}
		if strings.HasPrefix(t, "fun ") || strings.HasPrefix(t, "ufun ") {
			if err := flush(); err != nil {
				return err
			}
			curLine = i + 1
		}
		cur += " " + t
	}
	return flush()
}
