package main

// Spec expression language: Go expression syntax plus
//   a ==> b, a <==> b, forall k in lo..hi :: body, exists ..., old(e), e.(*T), cond ? a : b via ite(c,a,b)

import (
	"fmt"
	"math/big"
	"strings"
)

type Expr struct {
	Op   string // lit, ident, bin, un, call, index, slice, sel, forall, exists, tassert, typ
	Name string // ident name / operator / selector / call target
	Lit  *big.Int
	Args []*Expr
	Var  string // quantifier variable
	Type string // for tassert and typ
	Pos  int
}

type tok struct {
	kind string // num ident op eof
	text string
	pos  int
}

func lex(s string) ([]tok, error) {
	var out []tok
	i := 0
	for i < len(s) {
		c := s[i]
		if c == ' ' || c == '\t' || c == '\n' {
			i++
			continue
		}
		if c >= '0' && c <= '9' {
			j := i
			if c == '0' && j+1 < len(s) && (s[j+1] == 'x' || s[j+1] == 'X') {
				j += 2
				for j < len(s) && strings.ContainsRune("0123456789abcdefABCDEF_", rune(s[j])) {
					j++
				}
			} else {
				for j < len(s) && ((s[j] >= '0' && s[j] <= '9') || s[j] == '_') {
					j++
				}
			}
			out = append(out, tok{"num", s[i:j], i})
			i = j
			continue
		}
		if c == '_' || (c >= 'a' && c <= 'z') || (c >= 'A' && c <= 'Z') {
			j := i
			for j < len(s) && (s[j] == '_' || (s[j] >= 'a' && s[j] <= 'z') || (s[j] >= 'A' && s[j] <= 'Z') || (s[j] >= '0' && s[j] <= '9')) {
				j++
			}
			out = append(out, tok{"ident", s[i:j], i})
			i = j
			continue
		}
		if c == '"' {
			j := i + 1
			for j < len(s) && s[j] != '"' {
				j++
			}
			if j >= len(s) {
				return nil, fmt.Errorf("unterminated string")
			}
			out = append(out, tok{"str", s[i+1 : j], i})
			i = j + 1
			continue
		}
		ops := []string{"<==>", "==>", "&&", "||", "==", "!=", "<=", ">=", "<<", ">>", "&^", "::", "..", "+", "-", "*", "/", "%", "&", "|", "^", "<", ">", "!", "(", ")", "[", "]", ",", ".", ":", "{", "}"}
		matched := false
		for _, op := range ops {
			if strings.HasPrefix(s[i:], op) {
				out = append(out, tok{"op", op, i})
				i += len(op)
				matched = true
				break
			}
		}
		if !matched {
			return nil, fmt.Errorf("unexpected character %q at %d", c, i)
		}
	}
	out = append(out, tok{"eof", "", len(s)})
	return out, nil
}

type parser struct {
	toks []tok
	p    int
}

func ParseExpr(s string) (*Expr, error) {
	toks, err := lex(s)
	if err != nil {
		return nil, err
	}
	ps := &parser{toks: toks}
	e, err := ps.parseImpl()
	if err != nil {
		return nil, err
	}
	if ps.peek().kind != "eof" {
		return nil, fmt.Errorf("unexpected %q at %d", ps.peek().text, ps.peek().pos)
	}
	return e, nil
}

func (ps *parser) peek() tok { return ps.toks[ps.p] }
func (ps *parser) next() tok { t := ps.toks[ps.p]; ps.p++; return t }
func (ps *parser) isOp(s string) bool {
	t := ps.peek()
	return t.kind == "op" && t.text == s
}
func (ps *parser) expect(s string) error {
	if !ps.isOp(s) {
		return fmt.Errorf("expected %q at %d, got %q", s, ps.peek().pos, ps.peek().text)
	}
	ps.p++
	return nil
}

// impl: lowest precedence, right assoc:  a ==> b ==> c ; <==>
func (ps *parser) parseImpl() (*Expr, error) {
	t := ps.peek()
	if t.kind == "ident" && (t.text == "forall" || t.text == "exists") {
		return ps.parseQuant()
	}
	l, err := ps.parseBin(0)
	if err != nil {
		return nil, err
	}
	if ps.isOp("==>") {
		ps.next()
		r, err := ps.parseImpl()
		if err != nil {
			return nil, err
		}
		return &Expr{Op: "bin", Name: "==>", Args: []*Expr{l, r}}, nil
	}
	if ps.isOp("<==>") {
		ps.next()
		r, err := ps.parseImpl()
		if err != nil {
			return nil, err
		}
		return &Expr{Op: "bin", Name: "<==>", Args: []*Expr{l, r}}, nil
	}
	return l, nil
}

func (ps *parser) parseQuant() (*Expr, error) {
	t := ps.peek()
	{
		ps.next()
		v := ps.next()
		if v.kind != "ident" {
			return nil, fmt.Errorf("quantifier variable expected")
		}
		in := ps.next()
		if in.kind != "ident" || in.text != "in" {
			return nil, fmt.Errorf("'in' expected after quantifier variable")
		}
		lo, err := ps.parseBin(0)
		if err != nil {
			return nil, err
		}
		if err := ps.expect(".."); err != nil {
			return nil, err
		}
		hi, err := ps.parseBin(0)
		if err != nil {
			return nil, err
		}
		if err := ps.expect("::"); err != nil {
			return nil, err
		}
		body, err := ps.parseImpl()
		if err != nil {
			return nil, err
		}
		return &Expr{Op: t.text, Var: v.text, Args: []*Expr{lo, hi, body}, Pos: t.pos}, nil
	}
	return nil, fmt.Errorf("quantifier expected")
}

var binPrec = map[string]int{
	"||": 1, "&&": 2,
	"==": 3, "!=": 3, "<": 3, "<=": 3, ">": 3, ">=": 3,
	"+": 4, "-": 4, "|": 4, "^": 4,
	"*": 5, "/": 5, "%": 5, "<<": 5, ">>": 5, "&": 5, "&^": 5,
}

func (ps *parser) parseBin(minPrec int) (*Expr, error) {
	l, err := ps.parseUnary()
	if err != nil {
		return nil, err
	}
	for {
		t := ps.peek()
		if t.kind != "op" {
			return l, nil
		}
		prec, ok := binPrec[t.text]
		if !ok || prec <= minPrec {
			return l, nil
		}
		ps.next()
		r, err := ps.parseBin(prec)
		if err != nil {
			return nil, err
		}
		l = &Expr{Op: "bin", Name: t.text, Args: []*Expr{l, r}, Pos: t.pos}
	}
}

func (ps *parser) parseUnary() (*Expr, error) {
	t := ps.peek()
	if t.kind == "ident" && (t.text == "forall" || t.text == "exists") && ps.toks[ps.p+1].kind == "ident" {
		return ps.parseQuant()
	}
	if t.kind == "op" && (t.text == "!" || t.text == "-" || t.text == "^") {
		ps.next()
		e, err := ps.parseUnary()
		if err != nil {
			return nil, err
		}
		return &Expr{Op: "un", Name: t.text, Args: []*Expr{e}, Pos: t.pos}, nil
	}
	return ps.parsePostfix()
}

func (ps *parser) parseTypeText() (string, error) {
	// types: *T, []T, pkg.T, T
	var sb strings.Builder
	for {
		if ps.isOp("*") {
			ps.next()
			sb.WriteString("*")
			continue
		}
		if ps.isOp("[") {
			ps.next()
			if err := ps.expect("]"); err != nil {
				return "", err
			}
			sb.WriteString("[]")
			continue
		}
		break
	}
	t := ps.next()
	if t.kind != "ident" {
		return "", fmt.Errorf("type name expected at %d", t.pos)
	}
	sb.WriteString(t.text)
	if ps.isOp(".") {
		ps.next()
		t2 := ps.next()
		sb.WriteString("." + t2.text)
	}
	return sb.String(), nil
}

func (ps *parser) parsePrimary() (*Expr, error) {
	t := ps.next()
	switch t.kind {
	case "num":
		v := new(big.Int)
		txt := strings.ReplaceAll(t.text, "_", "")
		if _, ok := v.SetString(txt, 0); !ok {
			return nil, fmt.Errorf("bad number %q", t.text)
		}
		return &Expr{Op: "lit", Lit: v, Pos: t.pos}, nil
	case "str":
		return &Expr{Op: "str", Name: t.text, Pos: t.pos}, nil
	case "ident":
		return &Expr{Op: "ident", Name: t.text, Pos: t.pos}, nil
	case "op":
		if t.text == "(" {
			// parenthesised expr or (*T) type for conversion - we only support expr
			e, err := ps.parseImpl()
			if err != nil {
				return nil, err
			}
			if err := ps.expect(")"); err != nil {
				return nil, err
			}
			return e, nil
		}
		if t.text == "*" || t.text == "[" {
			// a type expression used as value (dyntype(x) == *T)
			ps.p--
			ty, err := ps.parseTypeText()
			if err != nil {
				return nil, err
			}
			return &Expr{Op: "typ", Type: ty, Pos: t.pos}, nil
		}
	}
	return nil, fmt.Errorf("unexpected %q at %d", t.text, t.pos)
}

func (ps *parser) parsePostfix() (*Expr, error) {
	e, err := ps.parsePrimary()
	if err != nil {
		return nil, err
	}
	for {
		switch {
		case ps.isOp("."):
			ps.next()
			if ps.isOp("(") {
				ps.next()
				ty, err := ps.parseTypeText()
				if err != nil {
					return nil, err
				}
				if err := ps.expect(")"); err != nil {
					return nil, err
				}
				e = &Expr{Op: "tassert", Type: ty, Args: []*Expr{e}}
				continue
			}
			t := ps.next()
			if t.kind != "ident" {
				return nil, fmt.Errorf("selector expected at %d", t.pos)
			}
			e = &Expr{Op: "sel", Name: t.text, Args: []*Expr{e}, Pos: t.pos}
		case ps.isOp("("):
			ps.next()
			var args []*Expr
			for !ps.isOp(")") {
				// allow type arguments like dyntype(x) == *T handled in primary
				a, err := ps.parseImpl()
				if err != nil {
					return nil, err
				}
				args = append(args, a)
				if ps.isOp(",") {
					ps.next()
				} else {
					break
				}
			}
			if err := ps.expect(")"); err != nil {
				return nil, err
			}
			e = &Expr{Op: "call", Args: append([]*Expr{e}, args...)}
		case ps.isOp("["):
			ps.next()
			var lo, hi *Expr
			if !ps.isOp(":") {
				lo, err = ps.parseImpl()
				if err != nil {
					return nil, err
				}
			}
			if ps.isOp(":") {
				ps.next()
				if !ps.isOp("]") {
					hi, err = ps.parseImpl()
					if err != nil {
						return nil, err
					}
				}
				if err := ps.expect("]"); err != nil {
					return nil, err
				}
				e = &Expr{Op: "slice", Args: []*Expr{e, lo, hi}}
			} else {
				if err := ps.expect("]"); err != nil {
					return nil, err
				}
				e = &Expr{Op: "index", Args: []*Expr{e, lo}}
			}
		default:
			return e, nil
		}
	}
}

func (e *Expr) String() string {
	if e == nil {
		return ""
	}
	switch e.Op {
	case "lit":
		return e.Lit.String()
	case "str":
		return fmt.Sprintf("%q", e.Name)
	case "ident":
		return e.Name
	case "typ":
		return e.Type
	case "bin":
		return "(" + e.Args[0].String() + " " + e.Name + " " + e.Args[1].String() + ")"
	case "un":
		return e.Name + e.Args[0].String()
	case "sel":
		return e.Args[0].String() + "." + e.Name
	case "tassert":
		return e.Args[0].String() + ".(" + e.Type + ")"
	case "index":
		return e.Args[0].String() + "[" + e.Args[1].String() + "]"
	case "slice":
		return e.Args[0].String() + "[" + e.Args[1].String() + ":" + e.Args[2].String() + "]"
	case "call":
		var as []string
		for _, a := range e.Args[1:] {
			as = append(as, a.String())
		}
		return e.Args[0].String() + "(" + strings.Join(as, ", ") + ")"
	case "forall", "exists":
		return e.Op + " " + e.Var + " in " + e.Args[0].String() + ".." + e.Args[1].String() + " :: " + e.Args[2].String()
	}
	return "?"
}
