package main

// Symbolic values, objects and memory.
//
// Memory model: path-wise symbolic execution with CONCRETE object identities.  Every allocation
// site executed on a path yields a distinct Object; input slices/pointers are distinct fresh
// Objects (no aliasing between distinct inputs unless a contract says so).  Scalars inside
// objects are SMT terms.  Array objects keep one "content tree" per scalar leaf of the element
// type; Select() expands a read at a symbolic index into a quantifier-free ite-chain.

import (
	"fmt"
	"go/types"
	"strings"
	"sync/atomic"
)

type SVal interface{}

// Scalar (int, bool, float, string-id) values are *Term.

type SliceV struct {
	Obj   *Object // backing array object (never nil; for a nil slice Obj is a dummy empty object)
	IsNil *Term
	Off   *Term // BV64 offset into Obj
	Len   *Term // BV64
	Cap   *Term // BV64
	Elem  types.Type
}

type PtrV struct {
	IsNil *Term
	Obj   *Object
	Idx   *Term // non-nil when pointing into an array object (element index incl. offset)
	Path  []int // field path inside the (element) value
	Elem  types.Type
}

type StructV struct {
	T      types.Type
	Fields []SVal
}

type ArrayV struct { // array VALUE (e.g. [10]byte loaded from a global): snapshot of leaf contents
	T      *types.Array
	Leaves map[string]*Content
}

// ArrayRef stands in a single object's value tree for an array-typed field: the cells live in a
// separate array object owned by the enclosing object (so that &x.f[i] and x.f[:] alias x).
type ArrayRef struct {
	Obj *Object
	T   *types.Array
}

type IfaceV struct {
	// concrete case: Dyn != nil, Val set.  symbolic case: Tag term + identity term; payloads materialised lazily
	Dyn      types.Type
	Val      SVal
	Tag      *Term // Int: 0 = nil interface, otherwise type tag
	Id       *Term // Int identity of payload (object id for pointer payloads; fresh otherwise)
	Static   types.Type
	payloads map[string]SVal // by type string, for symbolic values
	pmemo    map[string]*payloadMemo
	Name     string
	Wrapped  []*IfaceV
	Bits     *Term // BV64: bit pattern of a scalar payload (low bits), see ifaceBits
	Str      *Term // Int: string payload id
}

type FuncV struct {
	Fn    interface{} // *ssa.Function when known
	Binds []SVal
	IsNil *Term
	Id    *Term // Int identity for symbolic function values
	Sig   *types.Signature
	Name  string
}

type TupleV struct{ Vals []SVal }

// MapV: a map with string keys and a struct/scalar value type, modelled as an array object of values indexed by
// keyidx(key) (an injective uninterpreted function into [0, 2^20)) plus a "#present" leaf.  Other maps stay opaque.
type MapV struct {
	Obj   *Object
	IsNil *Term
	Key   types.Type
	Elem  types.Type
}

type OpaqueV struct { // maps, chans, unsupported
	T     types.Type
	Id    *Term
	IsNil *Term
}

// ---------- objects ----------

type Object struct {
	ID     int
	Name   string
	Array  bool
	Elem   types.Type // element type for arrays, value type for single objects
	Pre    bool       // existed at entry of the function under verification (or global)
	Global bool
	Dummy  bool
	// Nested: for array objects whose element type has slice-typed fields: one shared backing object per
	// field path.  The slice stored in element i occupies cells [i<<nestShift, i<<nestShift+cap) of it.
	Nested map[string]*Object
}

// nestShift: slices stored inside array elements are assumed shorter than 2^nestShift-1 elements.
const nestShift = 21

func (o *Object) String() string { return fmt.Sprintf("obj%d(%s)", o.ID, o.Name) }

type ObjState struct {
	Val    SVal                // single objects
	Leaves map[string]*Content // array objects: leaf path -> content
	ALen   *Term               // allocated length (BV64) for arrays
	Cells  map[string]SVal     // array objects: non-scalar element leaves stored at CONCRETE indices ("idx/path")
}

type ContentKind int

const (
	cBase ContentKind = iota
	cConst
	cStore
	cCopy
)

// Content is a functional description of an infinite array BV64 -> sort.
type Content struct {
	Kind   ContentKind
	Sort   Sort
	Fun    *FunDecl // cBase: uninterpreted function (BV64)->Sort
	C      *Term    // cConst value
	Prev   *Content
	Idx    *Term // cStore
	Val    *Term
	DstOff *Term // cCopy: cells [DstOff, DstOff+N) come from Src[SrcOff..]
	N      *Term
	Src    *Content
	SrcOff *Term
	id     int
}

var contentCounter int64

func newContent(c Content) *Content {
	c.id = int(atomic.AddInt64(&contentCounter, 1))
	return &c
}

func (x *Exec) ContentBase(hint string, s Sort) *Content {
	f := x.tb.DeclareFun(x.tb.Fresh("A."+hint, SBool).name, []Sort{BV(64)}, s)
	return newContent(Content{Kind: cBase, Sort: s, Fun: f})
}

func (x *Exec) ContentConst(c *Term) *Content {
	return newContent(Content{Kind: cConst, Sort: c.sort, C: c})
}

func (x *Exec) Select(c *Content, idx *Term) *Term {
	tb := x.tb
	switch c.Kind {
	case cBase:
		return tb.App(c.Fun, idx)
	case cConst:
		return c.C
	case cStore:
		return tb.Ite(tb.Eq(idx, c.Idx), c.Val, x.Select(c.Prev, idx))
	case cCopy:
		in := tb.And(tb.BVCmp("bvule", c.DstOff, idx), tb.BVCmp("bvult", idx, tb.BVBin("bvadd", c.DstOff, c.N)))
		if in.IsFalse() {
			return x.Select(c.Prev, idx)
		}
		src := x.Select(c.Src, tb.BVBin("bvadd", tb.BVBin("bvsub", idx, c.DstOff), c.SrcOff))
		return tb.Ite(in, src, x.Select(c.Prev, idx))
	}
	panic("bad content")
}

func (x *Exec) StoreC(c *Content, idx, val *Term) *Content {
	if val.sort != c.Sort {
		panic(fmt.Sprintf("StoreC sort mismatch %v into %v", val.sort, c.Sort))
	}
	return newContent(Content{Kind: cStore, Sort: c.Sort, Prev: c, Idx: idx, Val: val})
}

func (x *Exec) CopyC(dst *Content, dstOff *Term, src *Content, srcOff, n *Term) *Content {
	return newContent(Content{Kind: cCopy, Sort: dst.Sort, Prev: dst, DstOff: dstOff, N: n, Src: src, SrcOff: srcOff})
}

// ---------- state ----------

type State struct {
	mem    map[*Object]*ObjState
	pc     []*Term
	ghost  map[string]SVal
	events []string
	cuts   map[string]bool // loop headers already cut on this path: key = frameid:blockindex
	lockSnap *State        // state right after the most recent mutex acquisition on this path (atlock)
	visits map[string]int  // visits of unrolled (contract-less, constant-bound) loop headers on this path
	defers []deferred
	keep   map[int]bool // ids of path-condition entries that define ghost atoms: never dropped by a `forget` cut
}

type deferred struct {
	call interface{}
	fr   *Frame
}

func (s *State) Clone() *State {
	n := &State{mem: make(map[*Object]*ObjState, len(s.mem)), ghost: map[string]SVal{}, cuts: map[string]bool{}}
	for k, v := range s.mem {
		n.mem[k] = v
	}
	n.pc = append([]*Term(nil), s.pc...)
	n.lockSnap = s.lockSnap
	for k, v := range s.ghost {
		n.ghost[k] = v
	}
	for k, v := range s.cuts {
		n.cuts[k] = v
	}
	if len(s.visits) > 0 {
		n.visits = make(map[string]int, len(s.visits))
		for k, v := range s.visits {
			n.visits[k] = v
		}
	}
	if s.keep != nil {
		n.keep = map[int]bool{}
		for k := range s.keep {
			n.keep[k] = true
		}
	}
	n.events = append([]string(nil), s.events...)
	n.defers = append([]deferred(nil), s.defers...)
	return n
}

func (s *State) Assume(t *Term) {
	if t.IsTrue() {
		return
	}
	s.pc = append(s.pc, t)
}

// ---------- type helpers ----------

func isInteger(t types.Type) (w int, signed bool, ok bool) {
	b, isb := t.Underlying().(*types.Basic)
	if !isb {
		return 0, false, false
	}
	switch b.Kind() {
	case types.Int8:
		return 8, true, true
	case types.Int16:
		return 16, true, true
	case types.Int32:
		return 32, true, true
	case types.Int64, types.Int:
		return 64, true, true
	case types.Uint8:
		return 8, false, true
	case types.Uint16:
		return 16, false, true
	case types.Uint32:
		return 32, false, true
	case types.Uint64, types.Uint, types.Uintptr:
		return 64, false, true
	case types.UntypedInt, types.UntypedRune:
		return 64, true, true
	}
	return 0, false, false
}

func isBool(t types.Type) bool {
	b, ok := t.Underlying().(*types.Basic)
	return ok && b.Info()&types.IsBoolean != 0
}
func isString(t types.Type) bool {
	b, ok := t.Underlying().(*types.Basic)
	return ok && b.Info()&types.IsString != 0
}
func isFloat(t types.Type) (int, bool) {
	b, ok := t.Underlying().(*types.Basic)
	if !ok {
		return 0, false
	}
	switch b.Kind() {
	case types.Float32:
		return 32, true
	case types.Float64, types.UntypedFloat:
		return 64, true
	}
	return 0, false
}

// scalarSort returns the SMT sort of a scalar Go type.
func scalarSort(t types.Type) (Sort, bool) {
	if w, _, ok := isInteger(t); ok {
		return BV(w), true
	}
	if isBool(t) {
		return SBool, true
	}
	if isString(t) {
		return SInt, true
	}
	if w, ok := isFloat(t); ok {
		// floats are carried as their IEEE bit pattern; FP reasoning converts explicitly
		return BV(w), true
	}
	return Sort{}, false
}

func pathKey(p []int) string {
	var sb strings.Builder
	for _, i := range p {
		fmt.Fprintf(&sb, ".%d", i)
	}
	return sb.String()
}

// leafPaths enumerates scalar leaves of an element type (structs and fixed arrays flattened).
// Returns ok=false if the type has leaves that are not plain scalars (slices, pointers, interfaces...).
type leafInfo struct {
	Path []int
	Key  string
	T    types.Type
	Sort Sort
}

// nestedPaths lists the slice-typed fields of an element type (path key -> slice type).
type nestedInfo struct {
	Path []int
	Key  string
	T    *types.Slice
}

func nestedPaths(t types.Type) (out []nestedInfo) {
	var rec func(t types.Type, p []int)
	rec = func(t types.Type, p []int) {
		switch u := t.Underlying().(type) {
		case *types.Struct:
			for i := 0; i < u.NumFields(); i++ {
				rec(u.Field(i).Type(), append(p, i))
			}
		case *types.Slice:
			out = append(out, nestedInfo{Path: append([]int(nil), p...), Key: pathKey(p), T: u})
		}
	}
	rec(t, nil)
	return
}

func leafPaths(t types.Type) (out []leafInfo, ok bool) {
	ok = true
	var rec func(t types.Type, p []int)
	rec = func(t types.Type, p []int) {
		if s, isScalar := scalarSort(t); isScalar {
			out = append(out, leafInfo{Path: append([]int(nil), p...), Key: pathKey(p), T: t, Sort: s})
			return
		}
		switch u := t.Underlying().(type) {
		case *types.Struct:
			for i := 0; i < u.NumFields(); i++ {
				rec(u.Field(i).Type(), append(p, i))
			}
		case *types.Interface:
			// an interface value inside an array element is kept as four scalar leaves
			for _, suf := range []struct {
				s    string
				sort Sort
			}{{"#tag", SInt}, {"#id", SInt}, {"#bits", BV(64)}, {"#str", SInt}} {
				out = append(out, leafInfo{Path: append([]int(nil), p...), Key: pathKey(p) + suf.s, T: t, Sort: suf.sort})
			}
		case *types.Slice:
			// a slice header inside an array element: three scalar leaves; the cells live in Object.Nested
			for _, suf := range []struct {
				s    string
				sort Sort
			}{{"#len", BV(64)}, {"#cap", BV(64)}, {"#isnil", SBool}} {
				out = append(out, leafInfo{Path: append([]int(nil), p...), Key: pathKey(p) + suf.s, T: t, Sort: suf.sort})
			}
		default:
			ok = false
		}
	}
	rec(t, nil)
	return
}

func structOf(t types.Type) (*types.Struct, bool) {
	if t == nil {
		return nil, false
	}
	s, ok := t.Underlying().(*types.Struct)
	return s, ok
}
