package main

import (
	"flag"
	"fmt"
	"go/types"
	"os"
	"runtime"
	"sort"
	"strings"
	"time"
)

type Finding struct {
	ID          string   `json:"id"`
	Property    string   `json:"property"`
	Status      string   `json:"status"`
	What        string   `json:"what"`
	Obligations []string `json:"obligations"`
	Region      string   `json:"region"`
	Commit      string   `json:"commit,omitempty"`
	PinnedBy    []string `json:"pinned_by,omitempty"`
	Witness     string   `json:"witness,omitempty"`
	// Observed: what the code is known to do inside the region (a postcondition over the same names as the
	// clause). Inside the region the check proves Observed instead of the clause, so any OTHER deviation
	// at the same obligation is still reported.
	Observed string `json:"observed,omitempty"`
}

func main() {
	if len(os.Args) < 2 {
		fmt.Fprintln(os.Stderr, "usage: govc verify|check|list ...")
		os.Exit(2)
	}
	switch os.Args[1] {
	case "verify":
		cmdVerify(os.Args[2:])
	case "check":
		os.Exit(cmdCheck(os.Args[2:]))
	case "list":
		cmdList(os.Args[2:])
	case "snaplocals":
		cmdSnapLocals(os.Args[2:])
	case "sigs":
		cmdSigs(os.Args[2:])
	default:
		fmt.Fprintln(os.Stderr, "unknown command")
		os.Exit(2)
	}
}

func cmdList(args []string) {
	prog, err := LoadProgram("/repo", "/verif")
	if err != nil {
		fmt.Fprintln(os.Stderr, err)
		os.Exit(2)
	}
	var keys []string
	for k := range prog.Funcs {
		keys = append(keys, k)
	}
	sort.Strings(keys)
	for _, k := range keys {
		c := ""
		if _, ok := prog.Contracts[k]; ok {
			c = " [contract]"
		}
		fmt.Println(k + c)
	}
}

// cmdVerify: debugging entry point: verify given functions for a property and print every obligation.
func cmdVerify(args []string) {
	fs := flag.NewFlagSet("verify", flag.ExitOnError)
	prop := fs.String("prop", "", "property label filter")
	timeout := fs.Int("timeout", 10, "solver timeout (s)")
	dump := fs.String("dump", "", "dump scripts of failing obligations to this dir")
	verbose := fs.Bool("v", false, "verbose")
	useFindings := fs.Bool("findings", false, "apply known findings regions to callee clauses")
	show := fs.Bool("show", false, "show path condition and goal of failing obligations")
	match := fs.String("match", "", "only discharge obligations whose name contains this substring")
	fs.Parse(args)
	t0 := time.Now()
	prog, err := LoadProgram("/repo", "/verif")
	if err != nil {
		fmt.Fprintln(os.Stderr, err)
		os.Exit(2)
	}
	fmt.Printf("loaded in %.1fs: %d funcs, %d contracts, %d spec funs\n", time.Since(t0).Seconds(), len(prog.Funcs), len(prog.Contracts), len(prog.Specs))
	scratch, _ := os.MkdirTemp("", "govc")
	defer os.RemoveAll(scratch)
	ff, _ := loadFindings("/verif/known_findings.json")
	if *useFindings && ff != nil {
		attachRegions(prog, ff)
	}
	for _, key := range fs.Args() {
		var keys []string
		if strings.HasSuffix(key, "*") {
			for k := range prog.Contracts {
				if strings.HasPrefix(k, strings.TrimSuffix(key, "*")) {
					keys = append(keys, k)
				}
			}
			sort.Strings(keys)
		} else {
			keys = []string{key}
		}
		for _, key := range keys {
			fn := prog.Funcs[key]
			if fn == nil {
				fmt.Printf("%s: no such function\n", key)
				continue
			}
			x := NewExec(prog, fn, *prop)
			if *useFindings && ff != nil {
				x.findings = ff.Findings
			}
			r := x.Verify()
			if r.Aborted != "" {
				fmt.Printf("%s: ABORTED: %s\n", key, r.Aborted)
			}
			if *match != "" {
				var sel []*Obligation
				for _, o := range r.Obls {
					if strings.Contains(o.Name, *match) {
						sel = append(sel, o)
					}
				}
				r.Obls = sel
			}
			Discharge(r.Obls, SolveOpts{Timeout: *timeout, ScratchDir: scratch}, runtime.NumCPU(), true)
			ok, bad := 0, 0
			for _, o := range r.Obls {
				if dbg := os.Getenv("GOVC_DEBUG"); dbg != "" && strings.Contains(o.Name, dbg) {
					fmt.Printf("  DEBUG %s [%s]\n", o.Name, o.Result.Status)
					for _, a := range o.Asserts {
						fmt.Printf("       pc: %s\n", o.x.tb.Show(a))
					}
					fmt.Printf("       goal: %s\n", o.x.tb.Show(o.Goal))
					for _, a := range o.Aid {
						fmt.Printf("       aid: %s\n", o.x.tb.Show(a))
					}
					dbgN++; os.WriteFile(fmt.Sprintf("/tmp/dbg_pc_%d.smt2", dbgN), []byte(o.x.tb.Script(o.Asserts, nil, false)), 0644)
				}
				if o.Result.Status == "unsat" {
					ok++
					if *verbose {
						fmt.Printf("  ok   %-8s %s %v [%s %.2fs]\n", o.Kind, o.Name, o.Result.Tried, o.Result.Solver, o.Result.Seconds)
					}
					continue
				}
				bad++
				fmt.Printf("  FAIL %-8s %s %s [%s] %v\n", o.Kind, o.Name, o.Pos, o.Result.Status, o.Result.Tried)
				if o.ModelVals != nil {
					fmt.Printf("       model: %s\n", showModel(o.ModelVals))
				}
				if *show {
					for _, a := range o.Asserts {
						fmt.Printf("       pc: %s\n", o.x.tb.Show(a))
					}
					fmt.Printf("       goal: %s\n", o.x.tb.Show(o.Goal))
				}
				if *dump != "" {
					os.MkdirAll(*dump, 0755)
					os.WriteFile(fmt.Sprintf("%s/%s.smt2", *dump, sanitize(o.Name)), []byte(o.Result.Script), 0644)
				}
			}
			fmt.Printf("%s: %d obligations, %d discharged, %d failed; returns=%d\n", key, len(r.Obls), ok, bad, r.Returns)
			for _, w := range r.Warnings {
				fmt.Printf("  warning: %s\n", w)
			}
			for _, w := range r.Unmodelled {
				fmt.Printf("  unmodelled: %s\n", w)
			}
		}
	}
}

func showModel(m Model) string {
	var keys []string
	for k := range m {
		keys = append(keys, k)
	}
	sort.Strings(keys)
	// compact: scalars and slice headers; bytes up to len
	lens := map[string]int64{}
	for _, k := range keys {
		if strings.HasSuffix(k, "#len") {
			lens[strings.TrimSuffix(k, "#len")] = m[k].Int64()
		}
	}
	var sb strings.Builder
	for _, k := range keys {
		if i := strings.LastIndex(k, "#"); i >= 0 {
			base, suf := k[:i], k[i+1:]
			if suf != "len" && suf != "cap" && suf != "isnil" && suf != "tag" {
				continue
			}
			_ = base
		}
		fmt.Fprintf(&sb, "%s=%s ", k, m[k].String())
	}
	for base, n := range lens {
		if n > 64 {
			n = 64
		}
		fmt.Fprintf(&sb, "%s=[", base)
		for i := int64(0); i < n; i++ {
			if v, ok := m[fmt.Sprintf("%s#%d", base, i)]; ok {
				fmt.Fprintf(&sb, "%02x ", v.Int64())
			}
		}
		sb.WriteString("] ")
	}
	return sb.String()
}

// cmdSigs prints contract-style signature lines for functions matching a key prefix.
func cmdSigs(args []string) {
	prog, err := LoadProgram("/repo", "/verif")
	if err != nil {
		fmt.Fprintln(os.Stderr, err)
		os.Exit(2)
	}
	var keys []string
	for k := range prog.Funcs {
		keys = append(keys, k)
	}
	sort.Strings(keys)
	for _, k := range keys {
		ok := len(args) == 0
		for _, a := range args {
			if strings.Contains(k, a) {
				ok = true
			}
		}
		if !ok {
			continue
		}
		fn := prog.Funcs[k]
		if fn.Synthetic != "" {
			continue
		}
		q := func(p *types.Package) string {
			if fn.Pkg != nil && p == fn.Pkg.Pkg {
				return ""
			}
			return p.Name()
		}
		var ps []string
		start := 0
		recv := ""
		if fn.Signature.Recv() != nil {
			recv = "(" + fn.Params[0].Name() + " " + types.TypeString(fn.Params[0].Type(), q) + ") "
			start = 1
		}
		for _, p := range fn.Params[start:] {
			ps = append(ps, p.Name()+" "+types.TypeString(p.Type(), q))
		}
		var rs []string
		for i := 0; i < fn.Signature.Results().Len(); i++ {
			r := fn.Signature.Results().At(i)
			rs = append(rs, types.TypeString(r.Type(), q))
		}
		fmt.Printf("%s|func %s%s(%s)|%s\n", k, recv, fn.Name(), strings.Join(ps, ", "), strings.Join(rs, ","))
	}
}
var dbgN int
