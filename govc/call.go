package main

// Calls: contracts, inlining, built-in models, interface contracts; loops: invariants and frames.

import (
	"sort"
	"fmt"
	"go/token"
	"go/types"
	"math/big"
	"os"
	"strings"

	"golang.org/x/tools/go/ssa"
)

const maxInlineDepth = 10

func (x *Exec) doCall(fr *Frame, st *State, instr ssa.Value, cc *ssa.CallCommon, k func(*State, SVal)) {
	tb := x.tb
	var pos token.Pos = cc.Pos()
	var args []SVal
	if cc.IsInvoke() {
		recv := x.value(fr, st, cc.Value)
		iv, ok := recv.(*IfaceV)
		if !ok {
			panic("invoke on non-interface")
		}
		for _, a := range cc.Args {
			args = append(args, x.value(fr, st, a))
		}
		x.safety(st, fr, "nilcall("+x.srcText(pos)+")", tb.Not(tb.Eq(iv.Tag, tb.Intc(0))), pos)
		if iv.Dyn != nil {
			// concrete dynamic type: resolve method
			ms := x.prog.SSA.MethodSets.MethodSet(iv.Dyn)
			sel := ms.Lookup(cc.Method.Pkg(), cc.Method.Name())
			if sel != nil {
				fn := x.prog.SSA.MethodValue(sel)
				if fn != nil {
					x.callFunction(fr, st, fn, append([]SVal{iv.Val}, args...), pos, k)
					return
				}
			}
		}
		x.invokeSymbolic(fr, st, iv, cc, args, pos, k)
		return
	}
	for _, a := range cc.Args {
		args = append(args, x.value(fr, st, a))
	}
	switch callee := cc.Value.(type) {
	case *ssa.Builtin:
		x.builtin(fr, st, callee, cc, args, pos, k)
		return
	case *ssa.Function:
		x.callFunction(fr, st, callee, args, pos, k)
		return
	case *ssa.MakeClosure:
		fv := x.value(fr, st, callee).(*FuncV)
		x.callFuncValue(fr, st, fv, cc, args, pos, k)
		return
	default:
		fv, ok := x.value(fr, st, cc.Value).(*FuncV)
		if !ok {
			panic(fmt.Sprintf("call of %T", x.value(fr, st, cc.Value)))
		}
		x.callFuncValue(fr, st, fv, cc, args, pos, k)
	}
}

func (x *Exec) callFuncValue(fr *Frame, st *State, fv *FuncV, cc *ssa.CallCommon, args []SVal, pos token.Pos, k func(*State, SVal)) {
	tb := x.tb
	x.safety(st, fr, "nilfunc("+x.srcText(pos)+")", tb.Not(fv.IsNil), pos)
	if fn, ok := fv.Fn.(*ssa.Function); ok && fn != nil {
		x.callFunction(fr, st, fn, append(append([]SVal(nil), args...), fv.Binds...), pos, k)
		return
	}
	// symbolic function value: abstract contract keyed by its origin (struct field), with an optional list of
	// candidate functions: the call is then split over the candidates (each used by its own contract)
	c := x.ifaceContract(fv.Name)
	if c == nil {
		x.unmodelled["call of function value "+fv.Name] = true
		k(st, x.havocResult(st, cc.Signature().Results(), "fv"))
		return
	}
	var cands []*ssa.Function
	for _, cl := range c.ByKind("candidates") {
		for _, n := range cl.Names {
			if fn := x.prog.Funcs[n]; fn != nil {
				cands = append(cands, fn)
			} else {
				x.contractError(fmt.Errorf("%s:%d: unknown candidate function %s", cl.File, cl.Line, n))
				return
			}
		}
	}
	if len(cands) == 0 {
		x.applyContract(fr, st, c, fv.Name, nil, args, cc.Signature(), pos, k)
		return
	}
	// requires of the abstract contract are obligations at the call site
	ecPre := x.evalCtxFor(c, st, st, nil, args, cc.Signature(), nil, true)
	for _, cl := range c.ByKind("requires") {
		cl := cl
		if x.prop != "" && !cl.HasLabel(x.prop) {
			continue
		}
		if err := x.guard(fmt.Sprintf("%s:%d requires", cl.File, cl.Line), func() {
			g := ecPre.Bool(cl.Expr)
			o := x.addObl(st, fmt.Sprintf("%s/call(%s)/requires%s(%s)@%s", x.key, fv.Name, cl.LabelString(), cl.Text, x.srcText(pos)), "requires", g, pos, cl.Labels)
			o.Clause = cl
			st.Assume(g)
		}); err != nil {
			x.contractError(err)
			return
		}
	}
	rest := st
	for _, fn := range cands {
		is := tb.Eq(fv.Id, x.funcId(fn.String()))
		if is.IsFalse() {
			continue
		}
		s2 := rest.Clone()
		s2.Assume(is)
		fn := fn
		x.callFunction(fr, s2, fn, args, pos, func(s3 *State, res SVal) {
			// ghost effects of the abstract contract apply to every candidate; its ensures clauses (facts that
			// hold for every candidate by construction, e.g. "a packet function cannot return a *modbus.ClientError")
			// are assumed as well
			x.applyGhostSets(s3, c, args, cc.Signature(), res)
			x.assumeAbstractEnsures(s3, c, args, cc.Signature(), res)
			k(s3, res)
		})
		rest.Assume(tb.Not(is))
	}
	// none of the candidates: abstract contract
	x.applyContract(fr, rest, c, fv.Name, nil, args, cc.Signature(), pos, k)
}

func (x *Exec) applyGhostSets(st *State, c *Contract, args []SVal, sig *types.Signature, res SVal) {
	var results []SVal
	switch r := res.(type) {
	case nil:
	case *TupleV:
		results = r.Vals
	default:
		results = []SVal{res}
	}
	ec := x.evalCtxFor(c, st, st, nil, args, sig, results, false)
	for _, cl := range c.ByKind("ghostset") {
		cl := cl
		if err := x.guard("ghostset", func() {
			v := ec.Eval(cl.Exprs[1])
			if v.Const != nil {
				v = ec.coerceConst(v, x.ghostDecl[cl.Exprs[0].Name])
			}
			st.ghost[cl.Exprs[0].Name] = v.V
			x.ghostBound(st, cl.Exprs[0].Name)
		}); err != nil {
			x.contractError(err)
		}
	}
}

// ghostBound: integer ghost variables (event counters, stream positions) are assumed not to overflow:
// they stay within (-2^62, 2^62).  This is an assumption about ghost bookkeeping, never about program variables.
func (x *Exec) ghostBound(st *State, name string) {
	t, ok := st.ghost[name].(*Term)
	if !ok || t.sort != BV(64) {
		return
	}
	if _, _, isInt := isInteger(x.ghostDecl[name]); !isInt {
		return
	}
	lim := new(big.Int).Lsh(big.NewInt(1), 62)
	st.Assume(x.tb.BVCmp("bvslt", t, x.tb.BVc(64, lim)))
	st.Assume(x.tb.BVCmp("bvslt", x.tb.BVc(64, new(big.Int).Neg(lim)), t))
}

func (x *Exec) havocResult(st *State, res *types.Tuple, hint string) SVal {
	switch res.Len() {
	case 0:
		return nil
	case 1:
		return x.symbolic(st, res.At(0).Type(), hint+".res", false, 0)
	}
	tv := &TupleV{}
	for i := 0; i < res.Len(); i++ {
		tv.Vals = append(tv.Vals, x.symbolic(st, res.At(i).Type(), fmt.Sprintf("%s.res%d", hint, i), false, 0))
	}
	return tv
}

func ifaceKey(t types.Type, method string) string {
	if n, ok := t.(*types.Named); ok {
		pk := ""
		if n.Obj().Pkg() != nil {
			pk = shortPkg(n.Obj().Pkg().Path()) + "."
		}
		return pk + n.Obj().Name() + "." + method
	}
	if a, ok := t.(*types.Alias); ok {
		return ifaceKey(types.Unalias(a), method)
	}
	return types.TypeString(t, nil) + "." + method
}

func (x *Exec) invokeSymbolic(fr *Frame, st *State, iv *IfaceV, cc *ssa.CallCommon, args []SVal, pos token.Pos, k func(*State, SVal)) {
	key := ifaceKey(cc.Value.Type(), cc.Method.Name())
	if c := x.ifaceContract(key); c != nil {
		x.applyContract(fr, st, c, key, iv, args, cc.Signature(), pos, k)
		return
	}
	// static type may be a wider/narrower interface: try the static type recorded on the value
	if iv.Static != nil {
		key2 := ifaceKey(iv.Static, cc.Method.Name())
		if c := x.ifaceContract(key2); c != nil {
			x.applyContract(fr, st, c, key2, iv, args, cc.Signature(), pos, k)
			return
		}
	}
	x.unmodelled["interface call "+key] = true
	k(st, x.havocResult(st, cc.Signature().Results(), key))
}

func (x *Exec) callFunction(fr *Frame, st *State, fn *ssa.Function, args []SVal, pos token.Pos, k func(*State, SVal)) {
	name := fn.String()
	if x.builtinModel(fr, st, fn, name, args, pos, k) {
		return
	}
	key := x.prog.FuncKey(fn)
	if c := x.prog.Contracts[key]; c != nil && !c.Inline {
		x.usedContracts[key] = true
		// closures: the callee's captured variables are visible to its contract under their names
		if n := len(fn.Params); len(fn.FreeVars) > 0 && len(args) >= n+len(fn.FreeVars) {
			names := map[string]EV{}
			for i, fvv := range fn.FreeVars {
				b := args[n+i]
				if pv, ok := b.(*PtrV); ok {
					names[fvv.Name()] = EV{V: x.load(st, pv, pv.Elem), T: pv.Elem}
				} else {
					names[fvv.Name()] = EV{V: b, T: fvv.Type()}
				}
			}
			if x.calleeFree == nil {
				x.calleeFree = map[*Contract]map[string]EV{}
			}
			x.calleeFree[c] = names
			args = args[:n]
		}
		x.applyContract(fr, st, c, key, nil, args, fn.Signature, pos, k)
		return
	}
	inRepo := false
	if fn.Pkg != nil {
		_, inRepo = pkgDirs[shortPkg(fn.Pkg.Pkg.Path())]
	} else if fn.Synthetic != "" && fn.Blocks != nil {
		inRepo = true // wrappers / bound methods / instantiations
	}
	if fn.Parent() != nil {
		inRepo = true
	}
	if fn.Blocks != nil && inRepo && fr.depth < maxInlineDepth {
		x.inlined[key] = true
		x.inline(fr, st, fn, args, k)
		return
	}
	x.unmodelled["call "+name] = true
	k(st, x.havocResult(st, fn.Signature.Results(), fn.Name()))
}

func (x *Exec) inline(fr *Frame, st *State, fn *ssa.Function, args []SVal, k func(*State, SVal)) {
	nparams := len(fn.Params)
	params := args
	var binds []SVal
	if len(args) > nparams {
		params = args[:nparams]
		binds = args[nparams:]
	}
	nf := x.newFrame(fn, params, fr.depth+1, false)
	for i, fvv := range fn.FreeVars {
		if i < len(binds) {
			nf.env[fvv] = binds[i]
		}
	}
	x.runBlock(nf, fn.Blocks[0], nil, st, func(st2 *State, res []SVal) {
		switch len(res) {
		case 0:
			k(st2, nil)
		case 1:
			k(st2, res[0])
		default:
			k(st2, &TupleV{Vals: res})
		}
	})
}

// ---------- contracts at call sites ----------

func (x *Exec) evalCtxFor(c *Contract, st, old *State, recv SVal, args []SVal, sig *types.Signature, results []SVal, prove bool) *EvalCtx {
	ec := &EvalCtx{x: x, st: st, old: old, names: map[string]EV{}, prove: prove}
	if pk, ok := x.prog.Pkgs[c.Pkg]; ok {
		ec.pkg = pk.Types
	}
	all := args
	if c.Recv != nil && !c.IsIface {
		if len(all) > 0 {
			var rt types.Type
			if sig.Recv() != nil {
				rt = sig.Recv().Type()
			}
			ec.names[c.Recv.Name] = EV{V: all[0], T: rt}
			all = all[1:]
		}
	}
	if c.IsIface && recv != nil {
		ec.names["self"] = EV{V: recv}
	}
	for i, p := range c.Params {
		if i < len(all) {
			var pt types.Type
			if i < sig.Params().Len() {
				pt = sig.Params().At(i).Type()
			}
			ec.names[p.Name] = EV{V: all[i], T: pt}
		}
	}
	if fv, ok := x.calleeFree[c]; ok && c != x.contract {
		for k, v := range fv {
			if _, shadow := ec.names[k]; !shadow {
				ec.names[k] = v
			}
		}
	}
	if c == x.contract {
		for k, v := range x.retGhosts {
			if _, shadow := ec.names[k]; !shadow {
				ec.names[k] = v
			}
		}
		for k, v := range x.freeVarNames {
			if _, shadow := ec.names[k]; !shadow {
				ec.names[k] = v
			}
		}
	}
	for i, r := range c.Results {
		if results != nil && i < len(results) {
			var rt types.Type
			if i < sig.Results().Len() {
				rt = sig.Results().At(i).Type()
			}
			ec.names[r.Name] = EV{V: results[i], T: rt}
		}
	}
	return ec
}

func (x *Exec) guard(what string, f func()) (err error) {
	defer func() {
		if r := recover(); r != nil {
			if se, ok := r.(specError); ok {
				err = fmt.Errorf("%s: %s", what, se.msg)
				return
			}
			panic(r)
		}
	}()
	f()
	return nil
}

func (x *Exec) contractError(err error) {
	if x.aborted == "" {
		x.aborted = "contract error: " + err.Error()
	}
}

func (x *Exec) applyContract(fr *Frame, st *State, c *Contract, key string, recv SVal, args []SVal, sig *types.Signature, pos token.Pos, k func(*State, SVal)) {
	pre := st.Clone()
	// requires
	ecPre := x.evalCtxFor(c, st, st, recv, args, sig, nil, true)
	for _, cl := range c.ByKind("requires") {
		cl := cl
		if x.prop != "" && !cl.HasLabel(x.prop) {
			continue
		}
		if err := x.guard(fmt.Sprintf("%s:%d requires", cl.File, cl.Line), func() {
			g := ecPre.Bool(cl.Expr)
			o := x.addObl(st, fmt.Sprintf("%s/call(%s)/requires%s(%s)@%s", x.key, key, cl.LabelString(), cl.Text, x.srcText(pos)), "requires", g, pos, cl.Labels)
			o.Clause = cl
			st.Assume(g)
		}); err != nil {
			x.contractError(err)
			return
		}
	}
	// results
	var results []SVal
	for i := 0; i < sig.Results().Len(); i++ {
		nm := fmt.Sprintf("r%d", i)
		if i < len(c.Results) {
			nm = c.Results[i].Name
		}
		results = append(results, x.symbolic(st, sig.Results().At(i).Type(), shortKey(key)+"."+nm, false, 0))
	}
	// modifies: havoc
	ecMod := x.evalCtxFor(c, st, pre, recv, args, sig, nil, false)
	for _, cl := range c.ByKind("modifies") {
		for _, me := range cl.Exprs {
			me := me
			if me.Op == "ident" {
				if gt, isGhost := x.ghostDecl[me.Name]; isGhost {
					st.ghost[me.Name] = x.symbolic(st, gt, "ghost."+me.Name+"@"+shortKey(key), false, 0)
					x.ghostBound(st, me.Name)
					continue
				}
			}
			if err := x.guard(fmt.Sprintf("%s:%d modifies", cl.File, cl.Line), func() {
				if me.Op == "call" && me.Args[0].Op == "ident" && me.Args[0].Name == "hdr" {
					x.havocLoc(st, EV{V: ecMod.evalLoc(me.Args[1])}, key)
					return
				}
				v := ecMod.Eval(me)
				switch v.V.(type) {
				case *SliceV, *PtrV:
					x.havocLoc(st, v, key)
				default:
					x.havocLoc(st, EV{V: ecMod.evalLoc(me)}, key)
				}
			}); err != nil {
				x.contractError(err)
				return
			}
		}
	}
	// alias directives (conditional ones fork the path)
	aliases := c.ByKind("alias")
	x.applyAliases(fr, st, pre, c, aliases, 0, recv, args, sig, results, ecPre, k)
}

func (x *Exec) applyAliases(fr *Frame, st, pre *State, c *Contract, aliases []*Clause, i int, recv SVal, args []SVal, sig *types.Signature, results []SVal, ecPre *EvalCtx, k func(*State, SVal)) {
	tb := x.tb
	if i < len(aliases) {
		cl := aliases[i]
		ec := x.evalCtxFor(c, st, pre, recv, args, sig, results, false)
		if cl.Expr == nil {
			if err := x.guard(fmt.Sprintf("%s:%d alias", cl.File, cl.Line), func() { x.applyAlias(st, ec, cl) }); err != nil {
				x.contractError(err)
				return
			}
			x.applyAliases(fr, st, pre, c, aliases, i+1, recv, args, sig, results, ecPre, k)
			return
		}
		var cond *Term
		if err := x.guard(fmt.Sprintf("%s:%d alias condition", cl.File, cl.Line), func() { cond = ec.Bool(cl.Expr) }); err != nil {
			x.contractError(err)
			return
		}
		// results are shared values: copy them for the aliased branch
		if !cond.IsFalse() && x.feasible(st, cond) {
			st2 := st.Clone()
			res2 := cloneResults(results)
			st2.Assume(cond)
			ec2 := x.evalCtxFor(c, st2, pre, recv, args, sig, res2, false)
			if err := x.guard(fmt.Sprintf("%s:%d alias", cl.File, cl.Line), func() { x.applyAlias(st2, ec2, cl) }); err != nil {
				x.contractError(err)
				return
			}
			x.applyAliases(fr, st2, pre, c, aliases, i+1, recv, args, sig, res2, ecPre, k)
		}
		if !cond.IsTrue() {
			st.Assume(tb.Not(cond))
			x.applyAliases(fr, st, pre, c, aliases, i+1, recv, args, sig, results, ecPre, k)
		}
		return
	}
	ec := x.evalCtxFor(c, st, pre, recv, args, sig, results, false)
	// ensures (all labels: each is proved under its own property)
	for _, cl := range c.ByKind("ensures") {
		cl := cl
		if err := x.guard(fmt.Sprintf("%s:%d ensures", cl.File, cl.Line), func() {
			g := ec.Bool(cl.Expr)
			if cl.Region != nil {
				// known finding: the clause is only assumed outside the failing region
				rg := ecPre.Bool(cl.Region)
				g = tb.Implies(tb.Not(rg), g)
				if cl.Observed != nil {
					g = tb.And(g, tb.Implies(rg, ec.Bool(cl.Observed)))
				}
			}
			st.Assume(g)
		}); err != nil {
			x.contractError(err)
			return
		}
	}
	// ghost updates (evaluated in the post state; old(...) refers to the pre state)
	for _, cl := range c.ByKind("ghostset") {
		cl := cl
		if err := x.guard(fmt.Sprintf("%s:%d ghostset", cl.File, cl.Line), func() {
			name := cl.Exprs[0].Name
			v := ec.Eval(cl.Exprs[1])
			if v.Const != nil {
				v = ec.coerceConst(v, x.ghostDecl[name])
			}
			if _, ok := x.ghostDecl[name]; !ok {
				specFail("ghostset of undeclared ghost %s", name)
			}
			st.ghost[name] = v.V
			x.ghostBound(st, name)
		}); err != nil {
			x.contractError(err)
			return
		}
	}
	switch len(results) {
	case 0:
		k(st, nil)
	case 1:
		k(st, results[0])
	default:
		k(st, &TupleV{Vals: results})
	}
}

func cloneResults(rs []SVal) []SVal {
	out := make([]SVal, len(rs))
	for i, r := range rs {
		if s, ok := r.(*SliceV); ok {
			c := *s
			out[i] = &c
		} else {
			out[i] = r
		}
	}
	return out
}

func shortKey(k string) string {
	if i := strings.LastIndex(k, "."); i >= 0 && !strings.HasSuffix(k, ")") {
		return k[i+1:]
	}
	return k
}

// applyAlias: "alias res.Data := data[9:9+n]" makes a result slice share the object of an input.
func (x *Exec) applyAlias(st *State, ec *EvalCtx, cl *Clause) {
	lhs, rhs := cl.Exprs[0], cl.Exprs[1]
	rv := ec.Eval(rhs)
	// lhs: result name with optional selector path, possibly through pointer
	x.assignLoc(st, ec, lhs, rv.V)
}

func (x *Exec) assignLoc(st *State, ec *EvalCtx, lhs *Expr, v SVal) {
	switch lhs.Op {
	case "ident":
		old, ok := ec.names[lhs.Name]
		if !ok {
			specFail("alias target %s unknown", lhs.Name)
		}
		// replace in place for slice results
		if os, isS := old.V.(*SliceV); isS {
			ns := v.(*SliceV)
			*os = *ns
			return
		}
		specFail("alias target %s must be a slice", lhs.Name)
	case "sel":
		base := ec.Eval(lhs.Args[0])
		if pv, ok := base.V.(*PtrV); ok {
			path, _, found := fieldByName(pv.Elem, lhs.Name)
			if !found {
				specFail("no field %s", lhs.Name)
			}
			os := x.objState(st, pv.Obj)
			full := append(append([]int(nil), pv.Path...), path...)
			st.mem[pv.Obj] = &ObjState{Val: setPath(os.Val, full, v)}
			return
		}
		specFail("alias through %T not supported", base.V)
	}
	specFail("unsupported alias target %s", lhs)
}

// havocLoc havocs the memory designated by a modifies expression.
func (x *Exec) havocLoc(st *State, loc EV, hint string) {
	tb := x.tb
	switch v := loc.V.(type) {
	case *MapV:
		// the whole map: every value cell, every presence bit
		x.havocLoc(st, EV{V: &PtrV{IsNil: tb.False(), Obj: v.Obj, Elem: v.Elem}}, hint)
		return
	case *SliceV:
		if v.Obj.Dummy {
			return
		}
		os := x.objState(st, v.Obj)
		n := &ObjState{Leaves: map[string]*Content{}, ALen: os.ALen}
		leaves, _ := leafPaths(v.Obj.Elem)
		for _, l := range leaves {
			fresh := x.ContentBase("hv."+shortKey(hint)+l.Key, l.Sort)
			n.Leaves[l.Key] = x.CopyC(os.Leaves[l.Key], v.Off, fresh, v.Off, v.Len)
		}
		st.mem[v.Obj] = n
		for _, no := range v.Obj.Nested {
			sh := tb.BVi(64, nestShift)
			x.havocLoc(st, EV{V: &SliceV{Obj: no, IsNil: tb.False(), Off: tb.BVBin("bvshl", v.Off, sh), Len: tb.BVBin("bvshl", v.Len, sh), Elem: no.Elem}}, hint)
		}
	case *PtrV:
		if v.Obj.Dummy {
			return
		}
		if _, isArr := v.Elem.Underlying().(*types.Array); isArr {
			aobj, base := x.arrayField(st, v)
			at := v.Elem.Underlying().(*types.Array)
			x.havocLoc(st, EV{V: &SliceV{Obj: aobj, IsNil: tb.False(), Off: base, Len: tb.BVi(64, at.Len()), Cap: tb.BVi(64, at.Len()), Elem: at.Elem()}}, hint)
			return
		}
		if v.Obj.Array && v.Idx == nil {
			// the whole backing array (backing(s)): every cell, and the cells of slices stored in its elements
			var all func(o *Object)
			all = func(o *Object) {
				os := x.objState(st, o)
				n := &ObjState{Leaves: map[string]*Content{}, ALen: os.ALen}
				leaves, _ := leafPaths(o.Elem)
				for _, l := range leaves {
					n.Leaves[l.Key] = x.ContentBase("hv."+shortKey(hint)+l.Key, l.Sort)
				}
				if _, isMap := os.Leaves["#present"]; isMap {
					n.Leaves["#present"] = x.ContentBase("hv."+shortKey(hint)+"#present", SBool)
				}
				st.mem[o] = n
				for _, no := range o.Nested {
					all(no)
				}
			}
			all(v.Obj)
			return
		}
		if v.Obj.Array {
			x.warn("modifies through pointer into array: whole element havocked")
			x.writeElem(st, v.Obj, v.Idx, v.Path, v.Elem, x.symbolic(st, v.Elem, "hv", false, 1))
			return
		}
		if strings.HasSuffix(types.TypeString(v.Elem, nil), "strings.Builder") {
			x.sbHavoc(st, v)
			return
		}
		if ts := types.TypeString(v.Elem, nil); strings.HasPrefix(ts, "sync/atomic.") {
			var vt types.Type = types.Typ[types.Int64]
			if strings.HasSuffix(ts, "Bool") {
				vt = types.Typ[types.Bool]
			}
			srt, _ := scalarSort(vt)
			st.ghost[atomicKey(v)] = tb.Fresh("atomic.hv", srt)
			return
		}
		if strings.HasSuffix(types.TypeString(v.Elem, nil), "bytes.Buffer") {
			n := tb.Fresh("buf.len", BV(64))
			st.Assume(tb.BVCmp("bvsle", tb.BVi(64, 0), n))
			st.Assume(tb.BVCmp("bvslt", n, tb.BVi(64, 1<<40)))
			x.bbSet(st, v, x.ContentBase("buf", BV(8)), n)
			return
		}
		os := x.objState(st, v.Obj)
		st.mem[v.Obj] = &ObjState{Val: setPath(os.Val, v.Path, x.symbolic(st, v.Elem, "hv."+shortKey(hint), false, 1))}
	default:
		_ = tb
		specFail("modifies: unsupported location %T", loc.V)
	}
}

// ---------- loops ----------

func (x *Exec) loopContract(fr *Frame, ord int) *LoopContract {
	c := x.prog.Contracts[x.prog.FuncKey(fr.fn)]
	if c == nil {
		return nil
	}
	return c.Loops[ord]
}

// nameLookup resolves source-level variable names at a program point (block b, before its non-phi instrs).
func (x *Exec) nameLookup(fr *Frame, st *State, b *ssa.BasicBlock) func(string) (EV, bool) {
	return x.nameLookupSkip(fr, st, b, 0)
}

// nameLookupSkip: like nameLookup, but ignores the first `skip` loop-carried (phi) definitions of the name found on the
// dominator chain: outer(rangeindex) in an inner loop names the index of the enclosing loop.
func (x *Exec) nameLookupSkip(fr *Frame, st *State, b *ssa.BasicBlock, skip int) func(string) (EV, bool) {
	ren := x.prog.renamesFor(fr.fn)
	return func(name string) (EV, bool) {
		if nn, ok := ren[name]; ok {
			name = nn
		}
		skipLeft := skip
		// params
		for i, p := range fr.fn.Params {
			if p.Name() == name {
				return EV{V: fr.params[i], T: p.Type()}, true
			}
		}
		for i, fv := range fr.fn.FreeVars {
			if fv.Name() == name {
				_ = i
				if v, ok := fr.env[fv]; ok {
					t := fv.Type()
					if pv, isP := v.(*PtrV); isP {
						return EV{V: x.load(st, pv, pv.Elem), T: pv.Elem}, true
					}
					return EV{V: v, T: t}, true
				}
			}
		}
		// walk dominator chain
		first := true
		for blk := b; blk != nil; blk = blk.Idom() {
			instrs := blk.Instrs
			if first {
				// only phis of the starting block are visible
				n := 0
				for n < len(instrs) {
					if _, ok := instrs[n].(*ssa.Phi); !ok {
						break
					}
					n++
				}
				instrs = instrs[:n]
				first = false
			}
			for i := len(instrs) - 1; i >= 0; i-- {
				switch ins := instrs[i].(type) {
				case *ssa.Phi:
					if ins.Comment == name {
						if skipLeft > 0 {
							skipLeft--
							continue
						}
						if v, ok := fr.env[ins]; ok {
							return EV{V: v, T: ins.Type()}, true
						}
					}
				case *ssa.DebugRef:
					if ins.Object() != nil && ins.Object().Name() == name {
						v, ok := fr.env[ins.X]
						if cv, isC := ins.X.(*ssa.Const); isC && cv.IsNil() && !ok {
							// "var m map[..]" style reference to the nil constant: keep looking for the reference to the real value
							if _, isMap := cv.Type().Underlying().(*types.Map); isMap {
								continue
							}
						}
						if !ok {
							if cv, isC := ins.X.(*ssa.Const); isC {
								v, ok = x.constVal(cv), true
							}
						}
						if !ok {
							continue
						}
						if ins.IsAddr {
							if pv, isP := v.(*PtrV); isP {
								if _, isArr := pv.Elem.Underlying().(*types.Array); isArr {
									return EV{V: pv, T: ins.X.Type()}, true
								}
								return EV{V: x.load(st, pv, pv.Elem), T: pv.Elem}, true
							}
						}
						return EV{V: v, T: ins.X.Type()}, true
					}
				case *ssa.Alloc:
					if ins.Comment == name {
						if v, ok := fr.env[ins]; ok {
							pv := v.(*PtrV)
							if _, isArr := pv.Elem.Underlying().(*types.Array); isArr {
								return EV{V: pv, T: ins.Type()}, true
							}
							return EV{V: x.load(st, pv, pv.Elem), T: pv.Elem}, true
						}
					}
				}
			}
		}
		// range loops: at the header of `for name := range s` (or `for name, v := range s`) the key variable is not
		// loop-carried in SSA - the hidden counter `rangeindex` (last index visited, -1 before the first iteration) is.
		// An invariant written over the key, as for `for name := 0; name < len(s); name++`, means rangeindex+1 there.
		for _, ins := range b.Instrs {
			phi, isPhi := ins.(*ssa.Phi)
			if !isPhi {
				break
			}
			if phi.Comment != "rangeindex" {
				continue
			}
			pv, has := fr.env[phi]
			if !has {
				continue
			}
			for _, blk := range fr.fn.Blocks {
				for _, in := range blk.Instrs {
					dr, ok := in.(*ssa.DebugRef)
					if !ok || dr.Object() == nil || dr.Object().Name() != name || dr.IsAddr {
						continue
					}
					bo, isBin := dr.X.(*ssa.BinOp)
					if !isBin || bo.Op != token.ADD || bo.X != phi || bo.Block() != b {
						continue
					}
					if c, isC := bo.Y.(*ssa.Const); !isC || c.Value == nil || c.Int64() != 1 {
						continue
					}
					if t, isT := pv.(*Term); isT {
						return EV{V: x.tb.BVBin("bvadd", t, x.tb.BVi(t.sort.W, 1)), T: phi.Type()}, true
					}
				}
			}
		}
		// the converse: a contract written for a range loop (over `rangeindex`) applied to the counting loop
		// `for i := 0; i < n; i++` it was rewritten into: rangeindex means i-1 for the unique counter phi of the header.
		if name == "rangeindex" {
			var cand *ssa.Phi
			n := 0
			for _, ins := range b.Instrs {
				phi, isPhi := ins.(*ssa.Phi)
				if !isPhi {
					break
				}
				isCounter, fromZero := false, false
				for _, e := range phi.Edges {
					if c, isC := e.(*ssa.Const); isC && c.Value != nil && c.Int64() == 0 {
						fromZero = true
					}
					if bo, isBin := e.(*ssa.BinOp); isBin && bo.Op == token.ADD && bo.X == phi {
						if c, isC := bo.Y.(*ssa.Const); isC && c.Value != nil && c.Int64() == 1 {
							isCounter = true
						}
					}
				}
				if isCounter && fromZero && len(phi.Edges) == 2 {
					cand = phi
					n++
				}
			}
			if n == 1 {
				if pv, has := fr.env[cand]; has {
					if t, isT := pv.(*Term); isT {
						return EV{V: x.tb.BVBin("bvsub", t, x.tb.BVi(t.sort.W, 1)), T: cand.Type()}, true
					}
				}
			}
		}
		// fallback: a reference to the variable in a block that does not dominate this one, to a value whose definition
		// does (the variable is not loop-carried here, otherwise a phi of this block would have matched above)
		for _, blk := range fr.fn.Blocks {
			for _, in := range blk.Instrs {
				dr, ok := in.(*ssa.DebugRef)
				if !ok || dr.Object() == nil || dr.Object().Name() != name || dr.IsAddr {
					continue
				}
				def, isInstr := dr.X.(ssa.Instruction)
				if !isInstr || def.Block() == nil || !(def.Block() == b || def.Block().Dominates(b)) {
					continue
				}
				if _, isPhi := dr.X.(*ssa.Phi); isPhi {
					continue
				}
				if v, has := fr.env[dr.X]; has {
					return EV{V: v, T: dr.X.Type()}, true
				}
			}
		}
		return EV{}, false
	}
}

func (x *Exec) loopCtx(fr *Frame, b *ssa.BasicBlock, st *State, prove bool) *EvalCtx {
	ec := &EvalCtx{x: x, st: st, old: fr.entry, names: map[string]EV{}, prove: prove}
	if fr.fn.Pkg != nil {
		ec.pkg = fr.fn.Pkg.Pkg
	}
	for k, v := range fr.ghostLocal {
		ec.names[k] = EV{V: v, T: x.ghostDecl[k]}
	}
	ec.lookup = x.nameLookup(fr, st, b)
	ec.lookupOuter = x.nameLookupSkip(fr, st, b, 1)
	ec.lookupAddr = func(name string) (*PtrV, bool) {
		if nn, ok := x.prog.renamesFor(fr.fn)[name]; ok {
			name = nn
		}
		for blk := b; blk != nil; blk = blk.Idom() {
			for _, ins := range blk.Instrs {
				if a, ok := ins.(*ssa.Alloc); ok && a.Comment == name {
					if v, ok := fr.env[a]; ok {
						if pv, isP := v.(*PtrV); isP {
							return pv, true
						}
					}
				}
			}
		}
		return nil, false
	}
	return ec
}

func (x *Exec) loopGhostInit(fr *Frame, b *ssa.BasicBlock, ord int, lc *LoopContract, st *State) {
	if lc == nil {
		return
	}
	for _, g := range lc.Ghosts {
		g := g
		if err := x.guard(fmt.Sprintf("%s:%d ghost", g.File, g.Line), func() {
			ec := x.loopCtx(fr, b, st, false)
			name := g.Exprs[0].Name
			v := ec.Eval(g.Exprs[1])
			if v.Const != nil {
				v = ec.coerceConst(v, tInt)
			}
			if t, isT := v.V.(*Term); isT && t.sort.K == KBool && t.hasQ {
				// a quantified proposition: bind the ghost to a propositional atom defined by it (both directions, each
				// with its own polarity), so that invariants mentioning the ghost stay propositional in it
				atom := x.tb.Fresh(name+"!g", SBool)
				d1 := x.tb.Implies(atom, t)
				ecn := x.loopCtx(fr, b, st, true)
				d2 := x.tb.Implies(ecn.Bool(g.Exprs[1]), atom)
				if st.keep == nil {
					st.keep = map[int]bool{}
				}
				st.keep[d1.id], st.keep[d2.id] = true, true
				st.Assume(d1)
				st.Assume(d2)
				v.V = atom
			}
			fr.ghostLocal[name] = v.V
			if x.ghostDecl == nil {
				x.ghostDecl = map[string]types.Type{}
			}
			x.ghostDecl[name] = v.T
		}); err != nil {
			x.warn("loop ghost not evaluable: %v", err)
		}
	}
}

func (x *Exec) checkInvariants(fr *Frame, b *ssa.BasicBlock, ord int, lc *LoopContract, st *State, phase string) {
	if lc == nil {
		if fr.top {
			x.warn("loop %d of %s has no invariant (invariant 'true' assumed)", ord, x.prog.FuncKey(fr.fn))
		}
		return
	}
	for _, inv := range lc.Invs {
		inv := inv
		if x.prop != "" && !inv.HasLabel(x.prop) {
			continue
		}
		if err := x.guard(fmt.Sprintf("%s:%d invariant", inv.File, inv.Line), func() {
			ec := x.loopCtx(fr, b, st, true)
			g := ec.Bool(inv.Expr)
			o := x.addObl(st, fmt.Sprintf("%s/loop%d/%s(%s)", x.prog.FuncKey(fr.fn), ord, phase, inv.Text), "invariant-"+phase, g, b.Instrs[0].Pos(), inv.Labels)
			o.Clause = inv
		}); err != nil {
			// the loop no longer has the shape the invariant talks about (names not found): the invariant
			// cannot be established - a failed obligation, not an engine error
			o := x.addObl(st, fmt.Sprintf("%s/loop%d/%s-inapplicable(%s)", x.prog.FuncKey(fr.fn), ord, phase, inv.Text), "invariant-"+phase, x.tb.False(), b.Instrs[0].Pos(), inv.Labels)
			o.Detail = err.Error()
		}
	}
}

func (x *Exec) assumeInvariants(fr *Frame, b *ssa.BasicBlock, ord int, lc *LoopContract, st *State) {
	if lc == nil {
		return
	}
	for _, inv := range lc.Invs {
		inv := inv
		_ = x.guard(fmt.Sprintf("%s:%d invariant", inv.File, inv.Line), func() {
			ec := x.loopCtx(fr, b, st, false)
			st.Assume(ec.Bool(inv.Expr))
		})
	}
}

func (x *Exec) havocLoopMem(fr *Frame, b *ssa.BasicBlock, ord int, lc *LoopContract, st *State) {
	if lc == nil {
		return
	}
	for _, m := range lc.Modifies {
		for _, me := range m.Exprs {
			me := me
			if me.Op == "ident" {
				if gt, isGhost := x.ghostDecl[me.Name]; isGhost {
					if _, local := fr.ghostLocal[me.Name]; !local {
						st.ghost[me.Name] = x.symbolic(st, gt, fmt.Sprintf("ghost.%s!L%d", me.Name, ord), false, 0)
						x.ghostBound(st, me.Name)
						continue
					}
				}
			}
			if err := x.guard(fmt.Sprintf("%s:%d loop modifies", m.File, m.Line), func() {
				ec := x.loopCtx(fr, b, st, false)
				v := ec.Eval(me)
				switch v.V.(type) {
				case *SliceV, *PtrV, *MapV:
					x.havocLoc(st, v, fmt.Sprintf("L%d", ord))
				default:
					x.havocLoc(st, EV{V: ec.evalLoc(me)}, fmt.Sprintf("L%d", ord))
				}
			}); err != nil {
				x.warn("loop modifies not evaluable: %v", err)
			}
		}
	}
}

// checkLoopFrame: objects that existed at loop entry and were not havocked must be unchanged at the back edge.
func (x *Exec) checkLoopFrame(fr *Frame, b *ssa.BasicBlock, ord int, lc *LoopContract, st *State) {
	snap := fr.loopPre[ord]
	if snap == nil {
		return
	}
	modified := map[*Object]bool{}
	if lc != nil {
		for _, m := range lc.Modifies {
			for _, me := range m.Exprs {
				me := me
				if me.Op == "ident" {
					if _, isGhost := x.ghostDecl[me.Name]; isGhost {
						continue
					}
				}
				_ = x.guard("loop modifies", func() {
					ec := x.loopCtx(fr, b, st, false)
					if o := objOf(ec.Eval(me).V); o != nil {
						var all func(o *Object)
						all = func(o *Object) {
							modified[o] = true
							for _, no := range o.Nested {
								all(no)
							}
						}
						all(o)
					}
				})
			}
		}
	}
	if gs := fr.loopGhostPre[ord]; gs != nil {
		listed := map[string]bool{}
		if lc != nil {
			for _, m := range lc.Modifies {
				for _, me := range m.Exprs {
					if me.Op == "ident" {
						listed[me.Name] = true
					}
				}
			}
		}
		// buffers / builders listed as locations
		if lc != nil {
			for _, m := range lc.Modifies {
				for _, me := range m.Exprs {
					me := me
					_ = x.guard("loop modifies", func() {
						ec := x.loopCtx(fr, b, st, false)
						if pv, ok := ec.tryEvalPtr(me); ok {
							listed[fmt.Sprintf("sb:%d", pv.Obj.ID)] = true
							listed[bbKey(pv)] = true
							listed[atomicKey(pv)] = true
						} else {
							loc := ec.evalLoc(me)
							listed[bbKey(loc)] = true
							listed[atomicKey(loc)] = true
						}
					})
				}
			}
		}
		for name, v0 := range gs {
			if listed[name] || strings.HasPrefix(name, "crcinst:") {
				continue
			}
			if strings.HasPrefix(name, "map:") {
				continue
			}
			if strings.HasPrefix(name, "sb:") || strings.HasPrefix(name, "bb:") || strings.HasPrefix(name, "atomic:") {
				if v1, ok := st.ghost[name]; ok && v1 != v0 {
					x.addObl(st, fmt.Sprintf("%s/loop%d/frame(buffer %s is changed by the loop body but not listed in its modifies clause)", x.prog.FuncKey(fr.fn), ord, name), "frame", x.tb.False(), token.NoPos, nil)
				}
				continue
			}
			if v1, ok := st.ghost[name]; ok && v1 != v0 {
				g := x.svalEq(v0, v1)
				if !g.IsTrue() {
					x.addObl(st, fmt.Sprintf("%s/loop%d/frame(ghost %s is changed by the loop body but not listed in its modifies clause)", x.prog.FuncKey(fr.fn), ord, name), "frame", g, token.NoPos, nil)
				}
			}
		}
	}
	exempt := map[*Object][][]int{}
	if lc != nil {
		for _, m := range lc.Modifies {
			for _, me := range m.Exprs {
				me := me
				if me.Op == "ident" {
					if _, isGhost := x.ghostDecl[me.Name]; isGhost {
						continue
					}
				}
				_ = x.guard("loop modifies", func() {
					ec := x.loopCtx(fr, b, st, false)
					if _, isPtr := ec.tryEvalPtr(me); isPtr {
						return
					}
					if loc := ec.evalLoc(me); loc != nil && !loc.Obj.Array {
						exempt[loc.Obj] = append(exempt[loc.Obj], loc.Path)
					}
				})
			}
		}
	}
	for o, s0 := range snap {
		s1, ok := st.mem[o]
		if !ok || s1 == s0 || modified[o] {
			continue
		}
		var g *Term
		if ps := exempt[o]; len(ps) > 0 && !o.Array {
			a, bb := s0.Val, s1.Val
			for _, pth := range ps {
				bb = setPath(bb, pth, getPath(a, pth))
			}
			g = x.svalEq(a, bb)
		} else {
			g = x.objUnchanged(o, s0, s1, nil)
		}
		if g.IsTrue() {
			continue
		}
		x.addObl(st, fmt.Sprintf("%s/loop%d/frame(%s)", x.prog.FuncKey(fr.fn), ord, o.Name), "frame", g, token.NoPos, nil)
	}
}

// objUnchanged: proposition that object contents are equal in two states (pointwise with a skolem index).
// If except != nil, cells inside [except.Off, except.Off+except.Len) are exempt.
func (x *Exec) objUnchanged(o *Object, s0, s1 *ObjState, except *SliceV) *Term {
	tb := x.tb
	if o.Array {
		var cs []*Term
		k := tb.Fresh("frame.k", BV(64))
		for key, c0 := range s0.Leaves {
			c1 := s1.Leaves[key]
			if c1 == c0 || c1 == nil {
				continue
			}
			eq := tb.Eq(x.Select(c0, k), x.Select(c1, k))
			if except != nil {
				in := tb.And(tb.BVCmp("bvule", except.Off, k), tb.BVCmp("bvult", k, tb.BVBin("bvadd", except.Off, except.Len)))
				eq = tb.Or(in, eq)
			}
			cs = append(cs, eq)
		}
		return tb.And(cs...)
	}
	return x.svalEq(s0.Val, s1.Val)
}

func (x *Exec) svalEq(a, b SVal) *Term {
	tb := x.tb
	if a == b {
		return tb.True()
	}
	switch av := a.(type) {
	case *Term:
		return tb.Eq(av, b.(*Term))
	case *StructV:
		bv := b.(*StructV)
		var cs []*Term
		for i := range av.Fields {
			cs = append(cs, x.svalEq(av.Fields[i], bv.Fields[i]))
		}
		return tb.And(cs...)
	case *SliceV:
		bv := b.(*SliceV)
		if av.Obj != bv.Obj {
			return tb.False()
		}
		return tb.And(tb.Eq(av.Off, bv.Off), tb.Eq(av.Len, bv.Len), tb.Eq(av.Cap, bv.Cap), tb.Eq(av.IsNil, bv.IsNil))
	case *PtrV:
		return x.ptrEq(av, b.(*PtrV))
	case *IfaceV:
		return x.ifaceEq(av, b.(*IfaceV))
	case *FuncV:
		bv := b.(*FuncV)
		if av.Fn != nil && av.Fn == bv.Fn {
			return tb.True()
		}
		if av.Id != nil && bv.Id != nil {
			return tb.And(tb.Eq(av.IsNil, bv.IsNil), tb.Eq(av.Id, bv.Id))
		}
		return tb.False()
	case *OpaqueV:
		bv := b.(*OpaqueV)
		return tb.Eq(av.Id, bv.Id)
	case *ArrayV:
		return tb.True()
	case *ArrayRef:
		if bv, ok := b.(*ArrayRef); ok && bv.Obj == av.Obj {
			return tb.True()
		}
		return tb.False()
	}
	return tb.False()
}

// ---------- builtins ----------

func (x *Exec) builtin(fr *Frame, st *State, b *ssa.Builtin, cc *ssa.CallCommon, args []SVal, pos token.Pos, k func(*State, SVal)) {
	tb := x.tb
	switch b.Name() {
	case "len", "cap":
		switch v := args[0].(type) {
		case *SliceV:
			if b.Name() == "len" {
				k(st, v.Len)
			} else {
				k(st, v.Cap)
			}
		case *ArrayV:
			k(st, tb.BVi(64, v.T.Len()))
		case *Term: // string
			k(st, x.strLen(v))
		case *PtrV:
			at := v.Elem.Underlying().(*types.Array)
			k(st, tb.BVi(64, at.Len()))
		case *MapV:
			n := tb.Fresh("maplen", BV(64))
			st.Assume(tb.BVCmp("bvsle", tb.BVi(64, 0), n))
			st.Assume(tb.BVCmp("bvsle", n, tb.BVi(64, 1<<20)))
			k(st, n)
		case *OpaqueV:
			k(st, tb.Fresh("maplen", BV(64)))
		default:
			panic(fmt.Sprintf("len of %T", v))
		}
	case "copy":
		dst := args[0].(*SliceV)
		src, ok := args[1].(*SliceV)
		if !ok {
			x.warn("copy from string havocked")
			x.havocLoc(st, EV{V: dst}, "copystr")
			k(st, tb.Fresh("copyn", BV(64)))
			return
		}
		n := tb.Ite(tb.BVCmp("bvslt", dst.Len, src.Len), dst.Len, src.Len)
		x.copyCells(st, dst, src, n)
		k(st, n)
	case "append":
		x.appendModel(fr, st, cc, args, pos, k)
	case "ssa:wrapnilchk":
		// wrapper methods: panics if the receiver pointer is nil, otherwise returns it
		if pv, ok := args[0].(*PtrV); ok {
			x.safety(st, fr, "nilrecv("+x.srcText(pos)+")", tb.Not(pv.IsNil), pos)
		}
		k(st, args[0])
	case "recover":
		// either nothing was panicking (nil) or the panic value, which is arbitrary: both are explored
		k(st, x.symbolic(st, types.Universe.Lookup("any").Type(), "recovered", false, 0))
	case "print", "println":
		k(st, nil)
	case "delete":
		// ghost size only; the key is assumed present (protocol assumption, listed)
		if m, ok := args[0].(*OpaqueV); ok {
			sz := x.mapSize(st, m)
			st.ghost[fmt.Sprintf("map:%d", m.Id.id)] = tb.BVBin("bvsub", sz, tb.BVi(64, 1))
		}
		x.builtinModels["map delete (ghost size - 1, key assumed present)"] = true
		k(st, nil)
	case "min", "max":
		a, bb := args[0].(*Term), args[1].(*Term)
		_, signed, _ := isInteger(cc.Args[0].Type())
		op := "bvult"
		if signed {
			op = "bvslt"
		}
		lt := tb.BVCmp(op, a, bb)
		if b.Name() == "min" {
			k(st, tb.Ite(lt, a, bb))
		} else {
			k(st, tb.Ite(lt, bb, a))
		}
	default:
		x.unmodelled["builtin "+b.Name()] = true
		k(st, x.havocResult(st, cc.Signature().Results(), b.Name()))
	}
}

func (x *Exec) copyCells(st *State, dst, src *SliceV, n *Term) {
	if dst.Obj.Dummy {
		return
	}
	dos := x.objState(st, dst.Obj)
	if src.Obj.Dummy {
		return
	}
	sos := x.objState(st, src.Obj)
	nn := &ObjState{Leaves: map[string]*Content{}, ALen: dos.ALen}
	for key, c := range dos.Leaves {
		sc := sos.Leaves[key]
		if sc == nil {
			nn.Leaves[key] = c
			continue
		}
		nn.Leaves[key] = x.CopyC(c, dst.Off, sc, src.Off, n)
	}
	st.mem[dst.Obj] = nn
	// slices stored inside the copied elements: their cells move along (blocks are contiguous in the shared backing object)
	for key, dn := range dst.Obj.Nested {
		sn := src.Obj.Nested[key]
		if sn == nil {
			continue
		}
		sh := x.tb.BVi(64, nestShift)
		x.copyCells(st, &SliceV{Obj: dn, Off: x.tb.BVBin("bvshl", dst.Off, sh)}, &SliceV{Obj: sn, Off: x.tb.BVBin("bvshl", src.Off, sh)}, x.tb.BVBin("bvshl", n, sh))
	}
}

// appendModel: the result is always a fresh object holding old ++ new (assumption: no other live
// slice observes the spare capacity of the old backing array).
func (x *Exec) appendModel(fr *Frame, st *State, cc *ssa.CallCommon, args []SVal, pos token.Pos, k func(*State, SVal)) {
	tb := x.tb
	s := args[0].(*SliceV)
	add, ok := args[1].(*SliceV)
	if !ok {
		x.warn("append of string havocked")
		k(st, x.symbolic(st, cc.Signature().Results().At(0).Type(), "append", false, 0))
		return
	}
	newLen := tb.BVBin("bvadd", s.Len, add.Len)
	newCap := tb.Fresh("append.cap", BV(64))
	st.Assume(tb.BVCmp("bvsle", newLen, newCap))
	st.Assume(tb.BVCmp("bvslt", newCap, tb.BVc(64, new(big.Int).Lsh(big.NewInt(1), maxLenBits+1))))
	o := x.newArrayObject(st, fr.fn.Name()+".append", s.Elem, newCap, false, true)
	res := &SliceV{Obj: o, IsNil: tb.And(s.IsNil, tb.Eq(add.Len, tb.BVi(64, 0))), Off: tb.BVi(64, 0), Len: newLen, Cap: newCap, Elem: s.Elem}
	x.copyCells(st, &SliceV{Obj: o, Off: tb.BVi(64, 0), Len: s.Len}, s, s.Len)
	x.copyCells(st, &SliceV{Obj: o, Off: s.Len, Len: add.Len}, add, add.Len)
	k(st, res)
}

// ---------- models of standard library functions (assumed contracts on dependencies) ----------

func (x *Exec) be(st *State, fr *Frame, s *SliceV, n int, little bool, what string, pos token.Pos) *Term {
	tb := x.tb
	// bounds: index n-1 < len
	x.safety(st, fr, "index("+what+"@"+x.srcText(pos)+")", tb.BVCmp("bvslt", tb.BVi(64, int64(n-1)), s.Len), pos)
	c := x.objState(st, s.Obj).Leaves[""]
	var r *Term
	for i := 0; i < n; i++ {
		b := x.Select(c, tb.BVBin("bvadd", s.Off, tb.BVi(64, int64(i))))
		if r == nil {
			r = b
		} else if little {
			r = tb.Concat(b, r)
		} else {
			r = tb.Concat(r, b)
		}
	}
	return r
}

func (x *Exec) builtinModel(fr *Frame, st *State, fn *ssa.Function, name string, args []SVal, pos token.Pos, k func(*State, SVal)) bool {
	tb := x.tb
	model := func() { x.builtinModels[name] = true }
	switch name {
	case "(encoding/binary.bigEndian).Uint16", "(encoding/binary.littleEndian).Uint16":
		model()
		k(st, x.be(st, fr, args[1].(*SliceV), 2, strings.Contains(name, "little"), "Uint16", pos))
		return true
	case "(encoding/binary.bigEndian).Uint32", "(encoding/binary.littleEndian).Uint32":
		model()
		k(st, x.be(st, fr, args[1].(*SliceV), 4, strings.Contains(name, "little"), "Uint32", pos))
		return true
	case "(encoding/binary.bigEndian).Uint64", "(encoding/binary.littleEndian).Uint64":
		model()
		k(st, x.be(st, fr, args[1].(*SliceV), 8, strings.Contains(name, "little"), "Uint64", pos))
		return true
	case "(encoding/binary.bigEndian).PutUint16", "(encoding/binary.littleEndian).PutUint16":
		model()
		s := args[1].(*SliceV)
		v := args[2].(*Term)
		x.safety(st, fr, "index(PutUint16@"+x.srcText(pos)+")", tb.BVCmp("bvslt", tb.BVi(64, 1), s.Len), pos)
		hi, lo := tb.Extract(15, 8, v), tb.Extract(7, 0, v)
		b0, b1 := hi, lo
		if strings.Contains(name, "little") {
			b0, b1 = lo, hi
		}
		x.writeElem(st, s.Obj, s.Off, nil, s.Elem, b0)
		x.writeElem(st, s.Obj, tb.BVBin("bvadd", s.Off, tb.BVi(64, 1)), nil, s.Elem, b1)
		k(st, nil)
		return true
	case "math.Float32frombits", "math.Float64frombits", "math.Float32bits", "math.Float64bits":
		model()
		k(st, args[0]) // floats are carried as their bit patterns
		return true
	case "math.Ceil":
		model()
		f := tb.Raw("fp.roundToIntegral RTP", SFP, x.toFP(args[0].(*Term)))
		k(st, x.fpResult(st, f))
		return true
	case "math/rand.Intn":
		model()
		n := args[0].(*Term)
		x.safety(st, fr, "randIntn("+x.srcText(pos)+")", tb.BVCmp("bvslt", tb.BVi(64, 0), n), pos)
		r := tb.Fresh("rand", BV(64))
		st.Assume(tb.BVCmp("bvsle", tb.BVi(64, 0), r))
		st.Assume(tb.BVCmp("bvslt", r, n))
		k(st, r)
		return true
	case "errors.New", "fmt.Errorf":
		model()
		// fresh non-nil error of an opaque dynamic type distinct from repo types; %w wrapping recorded for errors.Is/As
		o := x.newObject("err."+fn.Name(), false, types.Typ[types.Int], false)
		st.mem[o] = &ObjState{Val: tb.BVi(64, 0)}
		iv := &IfaceV{Tag: x.typeTag(types.NewPointer(types.NewNamed(types.NewTypeName(0, nil, "opaqueError."+fn.Name(), nil), types.Typ[types.Int], nil))),
			Id: tb.Intc(int64(o.ID)), Static: types.Universe.Lookup("error").Type(), payloads: map[string]SVal{}, Name: "err." + fn.Name()}
		if name == "fmt.Errorf" && len(args) > 1 {
			// record wrapped error operands (any error-typed vararg)
			if va, ok := args[1].(*SliceV); ok {
				iv.Wrapped = x.wrappedErrors(st, va)
			}
		}
		k(st, iv)
		return true
	case "errors.As":
		model()
		e := args[0].(*IfaceV)
		tgt, ok := args[1].(*IfaceV)
		if !ok || tgt.Dyn == nil {
			break
		}
		pp, isPP := tgt.Dyn.(*types.Pointer)
		tp, isP := tgt.Val.(*PtrV)
		if !isPP || !isP {
			break
		}
		T := pp.Elem() // the type looked for (e.g. *ErrorParseTCP)
		isNil := tb.Eq(e.Tag, tb.Intc(0))
		var direct *Term
		if e.Dyn != nil {
			direct = tb.Bool(types.Identical(e.Dyn, T))
		} else {
			direct = tb.Eq(e.Tag, x.typeTag(T))
		}
		// (a) the error itself has the type
		if !direct.IsFalse() {
			s2 := st.Clone()
			s2.Assume(tb.Not(isNil))
			s2.Assume(direct)
			x.store(s2, tp, T, x.payloadFor(s2, e, T))
			k(s2, tb.True())
		}
		if !direct.IsTrue() {
			// (b) an error of that type is found further down the Unwrap chain: some non-nil value of the type
			s3 := st.Clone()
			s3.Assume(tb.Not(isNil))
			s3.Assume(tb.Not(direct))
			inner := x.symbolic(s3, T, "errors.As.target", false, 1)
			if ip, isPtr := inner.(*PtrV); isPtr {
				ip.IsNil = tb.False()
			}
			x.store(s3, tp, T, inner)
			k(s3, tb.True())
			// (c) not found
			st.Assume(tb.Not(direct))
			k(st, tb.False())
		}
		return true
	case "errors.Is":
		model()
		k(st, x.errIs(args[0].(*IfaceV), args[1].(*IfaceV)))
		return true
	case "fmt.Fprintf":
		// only the shape fmt.Fprintf(*strings.Builder, "%c", rune) is modelled exactly (ghost append)
		if w, ok := args[0].(*IfaceV); ok && w.Dyn != nil && strings.HasSuffix(types.TypeString(w.Dyn, nil), "strings.Builder") {
			if fmtc, isC := args[1].(*Term); isC && fmtc == x.strConst("%c") {
				if va, isS := args[2].(*SliceV); isS && va.Len.IsConst() && va.Len.val.Int64() == 1 {
					el := x.readElem(st, va.Obj, va.Off, nil, va.Elem)
					if iv, isI := el.(*IfaceV); isI && (iv.Dyn != nil || iv.Tag == x.typeTag(types.Typ[types.Int32]) || iv.Tag == x.typeTag(types.Universe.Lookup("rune").Type())) {
						var ch *Term
						if iv.Dyn != nil {
							ch, _ = iv.Val.(*Term)
						} else {
							ch, _ = x.payloadFor(st, iv, types.Typ[types.Int32]).(*Term)
						}
						if isT := ch != nil; isT && ch.sort == BV(32) {
							model()
							x.sbAppend(st, w.Val.(*PtrV), ch)
							k(st, &TupleV{Vals: []SVal{tb.Fresh("fprintf.n", BV(64)), &IfaceV{Tag: tb.Intc(0), Id: tb.Intc(0)}}})
							return true
						}
					}
				}
			}
		}
		x.unmodelled["fmt.Fprintf (shape other than Fprintf(*strings.Builder, \"%c\", rune))"] = true
		k(st, x.havocResult(st, fn.Signature.Results(), fn.Name()))
		return true
	case "(*strings.Builder).String":
		model()
		c, n := x.sbGet(st, args[0].(*PtrV))
		sv := tb.Fresh("sbstring", SInt)
		st.Assume(tb.mk(">=", SBool, nil, "", sv, tb.Intc(0)))
		st.Assume(tb.Eq(x.strLen(sv), n))
		if x.strContents == nil {
			x.strContents = map[int]*Content{}
		}
		x.strContents[sv.id] = c
		k(st, sv)
		return true
	case "fmt.Sprintf", "fmt.Sprint":
		model()
		if name == "fmt.Sprintf" && len(args) == 2 {
			if r, ok := x.sprintfModel(st, args[0], args[1]); ok {
				k(st, r)
				return true
			}
		}
		k(st, tb.Fresh("sprintf", SInt))
		return true
	case "log.Printf", "log.Println", "log.Print":
		model()
		k(st, nil)
		return true
	case "time.Now", "time.Since", "(time.Time).Add", "time.After", "time.Sleep", "time.NewTimer", "(*time.Timer).Stop", "(*time.Timer).Reset",
		"(time.Time).Sub", "(time.Duration).String":
		model()
		st.events = append(st.events, name)
		if name == "time.Sleep" {
			if cnt, ok := st.ghost["sleeps"].(*Term); ok {
				st.ghost["sleeps"] = tb.BVBin("bvadd", cnt, tb.BVi(64, 1))
			}
		}
		if name == "time.After" || name == "time.NewTimer" {
			// ghost record of when the timer was armed: after how many transport writes and pauses
			if _, ok := x.ghostDecl["timerWrites"]; ok {
				if w, ok2 := st.ghost["writes"].(*Term); ok2 {
					st.ghost["timerWrites"] = w
				}
				if sl, ok2 := st.ghost["sleeps"].(*Term); ok2 {
					st.ghost["timerSleeps"] = sl
				}
			}
			// ghost record of the armed duration (when the property's spec declares the ghosts)
			if _, ok := x.ghostDecl["timerNs"]; ok {
				if d, isT := args[0].(*Term); isT && d.sort == BV(64) {
					st.ghost["timerNs"] = d
					if cnt, ok2 := st.ghost["timers"].(*Term); ok2 {
						st.ghost["timers"] = tb.BVBin("bvadd", cnt, tb.BVi(64, 1))
					}
				}
			}
		}
		k(st, x.havocResult(st, fn.Signature.Results(), fn.Name()))
		return true
	case "(*bytes.Buffer).Write":
		model()
		p := args[1].(*SliceV)
		x.bbAppend(st, args[0].(*PtrV), p)
		k(st, &TupleV{Vals: []SVal{p.Len, &IfaceV{Tag: tb.Intc(0), Id: tb.Intc(0)}}})
		return true
	case "(*bytes.Buffer).Len":
		model()
		_, n := x.bbGet(st, args[0].(*PtrV))
		k(st, n)
		return true
	case "(*bytes.Buffer).Bytes":
		model()
		c, n := x.bbGet(st, args[0].(*PtrV))
		k(st, x.bbSnapshot(st, c, tb.BVi(64, 0), n, "buf.Bytes"))
		return true
	case "(*bytes.Buffer).Next":
		model()
		c, n := x.bbGet(st, args[0].(*PtrV))
		want := args[1].(*Term)
		x.safety(st, fr, "buffer.Next-negative("+x.srcText(pos)+")", tb.BVCmp("bvsle", tb.BVi(64, 0), want), pos)
		m := tb.Ite(tb.BVCmp("bvslt", want, n), want, n)
		res := x.bbSnapshot(st, c, tb.BVi(64, 0), m, "buf.Next")
		rest := tb.BVBin("bvsub", n, m)
		nc := x.CopyC(x.ContentConst(tb.BVi(8, 0)), tb.BVi(64, 0), c, m, rest)
		x.bbSet(st, args[0].(*PtrV), nc, rest)
		k(st, res)
		return true
	case "(*bytes.Buffer).Reset":
		model()
		x.bbSet(st, args[0].(*PtrV), x.ContentConst(tb.BVi(8, 0)), tb.BVi(64, 0))
		k(st, nil)
		return true
	case "(*sync/atomic.Int64).Load", "(*sync/atomic.Bool).Load", "(*sync/atomic.Int32).Load":
		model()
		lv := x.atomicGet(st, args[0].(*PtrV), fn.Signature.Results().At(0).Type())
		if cnt, ok := st.ghost["atomicTrueLoads"].(*Term); ok && lv.sort.K == KBool {
			// ghost count of atomic.Bool loads that returned true (when the spec declares it)
			st.ghost["atomicTrueLoads"] = tb.BVBin("bvadd", cnt, tb.Ite(lv, tb.BVi(64, 1), tb.BVi(64, 0)))
		}
		k(st, lv)
		return true
	case "(*sync/atomic.Int64).Add", "(*sync/atomic.Int32).Add":
		model()
		cur := x.atomicGet(st, args[0].(*PtrV), fn.Signature.Results().At(0).Type())
		nv := tb.BVBin("bvadd", cur, args[1].(*Term))
		st.ghost[atomicKey(args[0].(*PtrV))] = nv
		k(st, nv)
		return true
	case "(*sync/atomic.Int64).Store", "(*sync/atomic.Bool).Store", "(*sync/atomic.Int32).Store":
		model()
		if _, ok := st.ghost["lastBoolStore"]; ok && name == "(*sync/atomic.Bool).Store" {
			// ghost record of the value most recently stored into an atomic.Bool (when the spec declares it)
			st.ghost["lastBoolStore"] = args[1]
		}
		st.ghost[atomicKey(args[0].(*PtrV))] = args[1]
		k(st, nil)
		return true
	case "context.WithValue":
		model()
		r := x.symbolic(st, fn.Signature.Results().At(0).Type(), "ctx.WithValue", false, 0).(*IfaceV)
		st.Assume(tb.Not(tb.Eq(r.Tag, tb.Intc(0))))
		k(st, r)
		return true
	case "context.WithCancel", "context.WithTimeout":
		model()
		r := x.symbolic(st, fn.Signature.Results().At(0).Type(), "ctx.WithCancel", false, 0).(*IfaceV)
		st.Assume(tb.Not(tb.Eq(r.Tag, tb.Intc(0))))
		cf := &FuncV{IsNil: tb.False(), Id: tb.Fresh("cancel.fid", SInt), Sig: fn.Signature.Results().At(1).Type().Underlying().(*types.Signature), Name: "context.CancelFunc"}
		k(st, &TupleV{Vals: []SVal{r, cf}})
		return true
	case "(*strings.Builder).Grow":
		model()
		k(st, nil)
		return true
	case "(*sync.RWMutex).Lock", "(*sync.RWMutex).Unlock", "(*sync.RWMutex).RLock", "(*sync.RWMutex).RUnlock", "(*sync.Mutex).Lock", "(*sync.Mutex).Unlock":
		model()
		x.lockOp(fr, st, fn.Name(), args[0], pos)
		k(st, nil)
		return true
	}
	return false
}

func (x *Exec) wrappedErrors(st *State, va *SliceV) []*IfaceV {
	// variadic []interface{} built by the caller: elements were stored at concrete indices
	var out []*IfaceV
	_ = st
	_ = va
	return out
}

// errors.Is(err, target): uninterpreted over identities, true when equal, false for nil err.
func (x *Exec) errIs(e, t *IfaceV) *Term {
	tb := x.tb
	if x.errIsFun == nil {
		x.errIsFun = tb.DeclareFun("errors.Is", []Sort{SInt, SInt, SInt, SInt}, SBool)
	}
	eq := x.ifaceEq(e, t)
	isnil := tb.Eq(e.Tag, tb.Intc(0))
	uf := tb.App(x.errIsFun, e.Tag, e.Id, t.Tag, t.Id)
	return tb.And(tb.Not(isnil), tb.Or(eq, uf))
}

// ---------- lock discipline (ghost state) ----------

func (x *Exec) lockOp(fr *Frame, st *State, op string, mu SVal, pos token.Pos) {
	tb := x.tb
	// one mutex per client/server object: its state is the ghost variable muState (0 free, 1 shared, 2 exclusive)
	cur, has := st.ghost["muState"]
	if !has {
		cur = tb.BVi(8, 0)
	}
	c := cur.(*Term)
	switch op {
	case "Lock":
		x.lockObl(st, fr, "lock-when-free("+x.srcText(pos)+")", tb.Eq(c, tb.BVi(8, 0)), pos)
		st.ghost["muState"] = tb.BVi(8, 2)
	case "RLock":
		x.lockObl(st, fr, "lock-when-free("+x.srcText(pos)+")", tb.Eq(c, tb.BVi(8, 0)), pos)
		st.ghost["muState"] = tb.BVi(8, 1)
	case "Unlock":
		x.lockObl(st, fr, "unlock-of-exclusive("+x.srcText(pos)+")", tb.Eq(c, tb.BVi(8, 2)), pos)
		st.ghost["muState"] = tb.BVi(8, 0)
	case "RUnlock":
		x.lockObl(st, fr, "runlock-of-shared("+x.srcText(pos)+")", tb.Eq(c, tb.BVi(8, 1)), pos)
		st.ghost["muState"] = tb.BVi(8, 0)
	}
	if (op == "Lock" || op == "RLock") && len(x.shared) > 0 {
		// interference: while the mutex was not held other goroutines may have changed the fields it guards, so their
		// values are arbitrary after every acquisition (only when the property's guarded clause is active)
		if pv, ok := mu.(*PtrV); ok && pv.Obj != nil && !pv.Obj.Array && !pv.Obj.Dummy {
			if os, has := st.mem[pv.Obj]; has && os.Val != nil {
				val := os.Val
				var names []string
				for n := range x.shared {
					names = append(names, n)
				}
				sort.Strings(names)
				if x.sharedAt == nil {
					x.sharedAt = map[*Object][][]int{}
				}
				for _, n := range names {
					if path, ft, found := fieldByName(pv.Obj.Elem, n); found {
						val = setPath(val, path, x.memInit(st, pv.Obj, x.symbolic(st, ft, "acquired."+n, true, 1)))
						x.sharedAt[pv.Obj] = append(x.sharedAt[pv.Obj], path)
					}
				}
				st.mem[pv.Obj] = &ObjState{Val: val}
			}
		}
	}
	if op == "Lock" || op == "RLock" {
		// atlock(e): the value of e right after the most recent acquisition on this path (after the interference havoc)
		snap := st.Clone()
		snap.lockSnap = nil
		st.lockSnap = snap
	}
	st.events = append(st.events, "lock:"+op)
}

func (x *Exec) lockObl(st *State, fr *Frame, what string, g *Term, pos token.Pos) {
	if x.lockDiscipline {
		x.addObl(st, fmt.Sprintf("%s/lock/%s", x.key, what), "lock", g, pos, nil)
		st.Assume(g)
	}
}

// ---------- strings.Builder ghost model: (content, length) per builder object ----------

type sbGhost struct {
	c *Content
	n *Term
}

func (x *Exec) sbGet(st *State, p *PtrV) (*Content, *Term) {
	key := fmt.Sprintf("sb:%d", p.Obj.ID)
	if g, ok := st.ghost[key]; ok {
		sg := g.(*sbGhost)
		return sg.c, sg.n
	}
	return x.ContentConst(x.tb.BVi(32, 0)), x.tb.BVi(64, 0)
}

func (x *Exec) sbAppend(st *State, p *PtrV, ch *Term) {
	c, n := x.sbGet(st, p)
	st.ghost[fmt.Sprintf("sb:%d", p.Obj.ID)] = &sbGhost{c: x.StoreC(c, n, ch), n: x.tb.BVBin("bvadd", n, x.tb.BVi(64, 1))}
}

func (x *Exec) sbHavoc(st *State, p *PtrV) {
	n := x.tb.Fresh("sb.len", BV(64))
	st.Assume(x.tb.BVCmp("bvsle", x.tb.BVi(64, 0), n))
	st.ghost[fmt.Sprintf("sb:%d", p.Obj.ID)] = &sbGhost{c: x.ContentBase("sb", BV(32)), n: n}
}

// strChar: k-th character of a string value (ghost content when known, uninterpreted otherwise).
func (x *Exec) strChar(s *Term, k *Term) *Term {
	if c, ok := x.strContents[s.id]; ok {
		return x.Select(c, k)
	}
	f := x.tb.DeclareFun("strchar", []Sort{SInt, BV(64)}, BV(32))
	return x.tb.App(f, s, k)
}

// feasible: cheap solver check whether cond can hold on this path (ground part of the path condition).
// Unknown/timeouts count as feasible; used only to prune alias forks.
func (x *Exec) feasible(st *State, cond *Term) bool {
	tb := x.tb
	// syntactic exclusion first: cond demands t == c1 while the path already has t == c2
	eqs := map[int]*Term{}
	var collect func(t *Term, into func(lhs, c *Term))
	collect = func(t *Term, into func(lhs, c *Term)) {
		if t.op == "and" {
			for _, a := range t.args {
				collect(a, into)
			}
			return
		}
		if t.op == "=" && len(t.args) == 2 {
			if t.args[1].IsConst() && !t.args[0].IsConst() {
				into(t.args[0], t.args[1])
			} else if t.args[0].IsConst() && !t.args[1].IsConst() {
				into(t.args[1], t.args[0])
			}
		}
	}
	for _, a := range st.pc {
		collect(a, func(l, c *Term) { eqs[l.id] = c })
	}
	excluded := false
	collect(cond, func(l, c *Term) {
		if c0, ok := eqs[l.id]; ok && c0 != c {
			excluded = true
		}
	})
	if excluded {
		return false
	}
	var ground []*Term
	for _, a := range st.pc {
		ground = append(ground, tb.DropQuantifiers(a))
	}
	ground = append(ground, tb.DropQuantifiers(cond))
	dir, err := os.MkdirTemp("", "govc-feas")
	if err != nil {
		return true
	}
	defer os.RemoveAll(dir)
	r := Solve(tb.Script(ground, nil, false), SolveOpts{Timeout: 2, ScratchDir: dir})
	return r.Status != "unsat"
}

func (x *Exec) assumeAbstractEnsures(st *State, c *Contract, args []SVal, sig *types.Signature, res SVal) {
	var results []SVal
	switch r := res.(type) {
	case nil:
	case *TupleV:
		results = r.Vals
	default:
		results = []SVal{res}
	}
	ec := x.evalCtxFor(c, st, st, nil, args, sig, results, false)
	for _, cl := range c.ByKind("ensures") {
		cl := cl
		_ = x.guard("abstract ensures", func() { st.Assume(ec.Bool(cl.Expr)) })
	}
}

// ---------- bytes.Buffer ghost model: unread content (array from index 0) and its length, per buffer location.
// Slices returned by Bytes()/Next() are modelled as snapshots (valid while the buffer is not modified, which is
// how the repository uses them).

type bbGhost struct {
	c *Content
	n *Term
}

func bbKey(p *PtrV) string { return fmt.Sprintf("bb:%d%s", p.Obj.ID, pathKey(p.Path)) }

func (x *Exec) bbGet(st *State, p *PtrV) (*Content, *Term) {
	if g, ok := st.ghost[bbKey(p)]; ok {
		bg := g.(*bbGhost)
		return bg.c, bg.n
	}
	tb := x.tb
	var c *Content
	var n *Term
	if p.Obj.Pre {
		// buffer of a pre-existing object: arbitrary content, the same initial value in every state of this run
		if x.bbInit == nil {
			x.bbInit = map[string]*bbGhost{}
		}
		ini, ok := x.bbInit[bbKey(p)]
		if !ok {
			ini = &bbGhost{c: x.ContentBase("buf", BV(8)), n: tb.Fresh("buf.len", BV(64))}
			x.bbInit[bbKey(p)] = ini
		}
		c, n = ini.c, ini.n
		st.Assume(tb.BVCmp("bvsle", tb.BVi(64, 0), n))
		st.Assume(tb.BVCmp("bvslt", n, tb.BVi(64, 1<<40)))
		st.ghost[bbKey(p)] = ini
		return c, n
	} else {
		c = x.ContentConst(tb.BVi(8, 0))
		n = tb.BVi(64, 0)
		if x.bbFresh == nil {
			x.bbFresh = map[string]bool{}
		}
		x.bbFresh[bbKey(p)] = true // buffer of an object allocated by the function under verification: not subject to its frame
	}
	st.ghost[bbKey(p)] = &bbGhost{c: c, n: n}
	return c, n
}

func (x *Exec) bbSet(st *State, p *PtrV, c *Content, n *Term) {
	st.ghost[bbKey(p)] = &bbGhost{c: c, n: n}
}

func (x *Exec) bbAppend(st *State, p *PtrV, s *SliceV) {
	c, n := x.bbGet(st, p)
	nc := c
	if !s.Obj.Dummy {
		src := x.objState(st, s.Obj).Leaves[""]
		nc = x.CopyC(c, n, src, s.Off, s.Len)
	}
	x.bbSet(st, p, nc, x.tb.BVBin("bvadd", n, s.Len))
}

func (x *Exec) bbSnapshot(st *State, c *Content, off, n *Term, name string) *SliceV {
	tb := x.tb
	o := x.newObject(name, true, types.Typ[types.Uint8], false)
	st.mem[o] = &ObjState{Leaves: map[string]*Content{"": x.CopyC(x.ContentConst(tb.BVi(8, 0)), tb.BVi(64, 0), c, off, n)}, ALen: n}
	return &SliceV{Obj: o, IsNil: tb.False(), Off: tb.BVi(64, 0), Len: n, Cap: n, Elem: types.Typ[types.Uint8]}
}

// bbUnchanged: the buffer's unread content is the same in two states (only provable when it was never touched).
func (x *Exec) bbUnchanged(s0, s1 *State, key string) *Term {
	g1, _ := s1.ghost[key].(*bbGhost)
	g0, ok := s0.ghost[key].(*bbGhost)
	if !ok || g0 == nil {
		g0 = x.bbInit[key] // materialised lazily after entry
	}
	if g0 == nil || g1 == nil {
		return x.tb.False()
	}
	if g0 == g1 {
		return x.tb.True()
	}
	k := x.tb.Fresh("bbframe.k", BV(64))
	return x.tb.And(x.tb.Eq(g0.n, g1.n), x.tb.Eq(x.Select(g0.c, k), x.Select(g1.c, k)))
}

// ---------- atomics and maps as ghost values (sequential semantics; no schedule is modelled) ----------

func atomicKey(p *PtrV) string { return fmt.Sprintf("atomic:%d%s", p.Obj.ID, pathKey(p.Path)) }

func (x *Exec) atomicGet(st *State, p *PtrV, t types.Type) *Term {
	key := atomicKey(p)
	if v, ok := st.ghost[key]; ok {
		return v.(*Term)
	}
	if x.atomicInit == nil {
		x.atomicInit = map[string]*Term{}
	}
	v, ok := x.atomicInit[key]
	if !ok {
		srt, _ := scalarSort(t)
		if p.Obj.Pre {
			v = x.tb.Fresh("atomic", srt)
		} else if srt.K == KBool {
			v = x.tb.False()
		} else {
			v = x.tb.BVi(srt.W, 0)
		}
		x.atomicInit[key] = v
	}
	st.ghost[key] = v
	return v
}

func (x *Exec) mapSize(st *State, m *OpaqueV) *Term {
	key := fmt.Sprintf("map:%d", m.Id.id)
	if v, ok := st.ghost[key]; ok {
		return v.(*Term)
	}
	if x.mapInit == nil {
		x.mapInit = map[string]*Term{}
	}
	v, ok := x.mapInit[key]
	if !ok {
		v = x.tb.Fresh("mapsize", BV(64))
		x.mapInit[key] = v
	}
	st.Assume(x.tb.BVCmp("bvsle", x.tb.BVi(64, 0), v))
	st.Assume(x.tb.BVCmp("bvslt", v, x.tb.BVi(64, 1<<40)))
	st.ghost[key] = v
	return v
}

// ifaceContract: environment contracts are per package (the client and the server packages assume different
// things about net.Conn); the package of the function under verification decides.
func (x *Exec) ifaceContract(key string) *Contract {
	pk := ""
	if x.fn.Pkg != nil {
		pk = shortPkg(x.fn.Pkg.Pkg.Path())
	} else if x.fn.Parent() != nil && x.fn.Parent().Pkg != nil {
		pk = shortPkg(x.fn.Parent().Pkg.Pkg.Path())
	}
	if c := x.prog.Ifaces[pk+"|"+key]; c != nil {
		return c
	}
	return nil
}


// sprintfModel: fmt.Sprintf with a constant format and up to four value arguments (strings, integers, booleans) is a
// FUNCTION of the format and the arguments (uninterpreted).  For the one format the repository uses as a map key,
// "%v_%v_%v" over (string, uint8, bool), injectivity is assumed as well (the last two segments contain no '_', so the
// three arguments can be read back from the result): listed among the assumptions.
func (x *Exec) sprintfModel(st *State, format SVal, va SVal) (*Term, bool) {
	tb := x.tb
	ft, ok := format.(*Term)
	sv, ok2 := va.(*SliceV)
	if !ok || !ok2 || !sv.Len.IsConst() || sv.Obj.Dummy {
		return nil, false
	}
	n := int(sv.Len.val.Int64())
	if n < 1 || n > 4 {
		return nil, false
	}
	argSorts := []Sort{SInt}
	argTerms := []*Term{ft}
	var ivs []*IfaceV
	for i := 0; i < n; i++ {
		ev := x.readElem(st, sv.Obj, tb.BVBin("bvadd", sv.Off, tb.BVi(64, int64(i))), nil, sv.Elem)
		iv, isI := ev.(*IfaceV)
		if !isI {
			return nil, false
		}
		bits, str := x.ifaceBits(iv)
		argSorts = append(argSorts, SInt, BV(64), SInt)
		argTerms = append(argTerms, iv.Tag, bits, str)
		ivs = append(ivs, iv)
	}
	f := tb.DeclareFun(fmt.Sprintf("fmt.sprintf%d", n), argSorts, SInt)
	res := tb.App(f, argTerms...)
	x.assumeQ(st, tb.mk(">=", SBool, nil, "", res, tb.Intc(0)))
	if ft.IsConst() && n == 3 && ft == x.strConst("%v_%v_%v") {
		x.builtinModels["fmt.Sprintf(\"%v_%v_%v\", string, uint8, bool) is injective (its arguments can be read back from the result)"] = true
		for i := 0; i < 3; i++ {
			invB := tb.DeclareFun(fmt.Sprintf("fmt.sprintf3.argbits%d", i), []Sort{SInt}, BV(64))
			invS := tb.DeclareFun(fmt.Sprintf("fmt.sprintf3.argstr%d", i), []Sort{SInt}, SInt)
			bits, str := x.ifaceBits(ivs[i])
			x.assumeQ(st, tb.Eq(tb.App(invB, res), bits))
			x.assumeQ(st, tb.Eq(tb.App(invS, res), str))
		}
	}
	return res, true
}
