package main

// Self-check of the translator on the unchanged (or changed) tree: a sample of DISCHARGED post-conditions is
// validated against the real code.  For each sampled return site the solver is asked for inputs that drive the
// function down that path (a model of the path condition); the real function is run on them (go test -overlay, as for
// counterexample replay) and the proved clause is re-evaluated on the actual inputs/outputs.  A clause that was
// proved but is false on a real execution means the engine's semantics (or a built-in model) is wrong: that is an
// error of the check itself, never a property violation.

import (
	"fmt"
	"math/rand"
	"os"
	"runtime"
	"sort"
	"strings"
	"sync"
)

type selfCheckResult struct {
	Sampled       int
	Validated     int
	NotReplayable int
	NoModel       int
	Failures      []string
	Samples       []map[string]interface{}
}

func selfCheck(prog *Program, all []*Obligation, n int, seed int64, scratch string) *selfCheckResult {
	res := &selfCheckResult{}
	// candidates: discharged, non-trivial ensures clauses of functions with a quantifier-free path condition
	byFunc := map[string][]*Obligation{}
	var funcs []string
	for _, o := range all {
		if o.Kind != "ensures" || o.Trivial || o.Result == nil || o.Result.Status != "unsat" || o.Clause == nil || o.Clause.Expr == nil || o.Finding != nil {
			continue
		}
		if o.x == nil || o.x.fn == nil || o.x.fn.Pkg == nil || strings.Contains(o.x.fn.Name(), "lemma") {
			continue
		}
		q := false
		for _, a := range o.Asserts {
			if a.hasQ {
				q = true
				break
			}
		}
		if q || o.Goal.hasQ {
			continue
		}
		if len(byFunc[o.Func]) == 0 {
			funcs = append(funcs, o.Func)
		}
		byFunc[o.Func] = append(byFunc[o.Func], o)
	}
	sort.Strings(funcs)
	rng := rand.New(rand.NewSource(seed + 7))
	rng.Shuffle(len(funcs), func(i, j int) { funcs[i], funcs[j] = funcs[j], funcs[i] })
	var picked []*Obligation
	for round := 0; len(picked) < n && round < 4; round++ {
		for _, f := range funcs {
			if len(picked) >= n {
				break
			}
			os := byFunc[f]
			if round >= len(os) {
				continue
			}
			picked = append(picked, os[rng.Intn(len(os))])
		}
	}
	if len(picked) == 0 {
		return res
	}
	// shadow obligations: "false" as goal => the solver returns a model of the path condition (inputs for that path)
	shadows := make([]*Obligation, len(picked))
	for i, o := range picked {
		shadows[i] = &Obligation{Name: o.Name, Kind: o.Kind, Func: o.Func, Asserts: o.Asserts, Goal: o.x.tb.False(), x: o.x, Inputs: o.Inputs, Outputs: o.Outputs, Clause: o.Clause, Pos: o.Pos}
	}
	// first try with random values pinned on the leading cells of byte-slice inputs (so the runs are not all-zero
	// inputs); where that contradicts the path, fall back to any model of the path condition
	plain := make([][]*Term, len(shadows))
	for i, s := range shadows {
		plain[i] = s.Asserts
		tb := s.x.tb
		extra := append([]*Term(nil), s.Asserts...)
		var walk func(v SVal)
		walk = func(v SVal) {
			switch t := v.(type) {
			case *SliceV:
				if t.Obj == nil || t.Obj.Dummy {
					return
				}
				os, ok := s.x.entryMem[t.Obj]
				if !ok || os.Leaves == nil || os.Leaves[""] == nil || os.Leaves[""].Sort != BV(8) {
					return
				}
				for c := 0; c < 12; c++ {
					idx := tb.BVBin("bvadd", t.Off, tb.BVi(64, int64(c)))
					extra = append(extra, tb.Implies(tb.BVCmp("bvslt", tb.BVi(64, int64(c)), t.Len), tb.Eq(s.x.Select(os.Leaves[""], idx), tb.BVi(8, int64(rng.Intn(256))))))
				}
			case *StructV:
				for _, f := range t.Fields {
					walk(f)
				}
			case *PtrV:
				if os, ok := s.x.entryMem[t.Obj]; ok && !t.Obj.Array && os.Val != nil {
					walk(getPath(os.Val, t.Path))
				}
			}
		}
		for _, in := range s.Inputs {
			walk(in.Val)
		}
		s.Asserts = extra
	}
	Discharge(shadows, SolveOpts{Timeout: 10, ScratchDir: scratch}, runtime.NumCPU(), true)
	var retry []*Obligation
	for i, s := range shadows {
		if s.Result == nil || s.Result.Status != "sat" || s.ModelVals == nil {
			s.Asserts = plain[i]
			s.Result, s.ModelVals = nil, nil
			retry = append(retry, s)
		}
	}
	if len(retry) > 0 {
		Discharge(retry, SolveOpts{Timeout: 10, ScratchDir: scratch}, runtime.NumCPU(), true)
	}
	var wg sync.WaitGroup
	var mu sync.Mutex
	sem := make(chan struct{}, runtime.NumCPU())
	for _, s := range shadows {
		res.Sampled++
		if s.Result == nil || s.Result.Status != "sat" || s.ModelVals == nil {
			res.NoModel++
			continue
		}
		wg.Add(1)
		go func(s *Obligation) {
			defer wg.Done()
			sem <- struct{}{}
			defer func() { <-sem }()
			rec := &ReplayRecord{Obligation: s.Name}
			func() {
				defer func() {
					if e := recover(); e != nil {
						rec.Verdict = "not-replayable"
						rec.Reason = fmt.Sprint(e)
					}
				}()
				replayOnRealCode(prog, s, rec, scratch)
			}()
			mu.Lock()
			defer mu.Unlock()
			switch {
			case rec.Verdict == "confirmed":
				res.Failures = append(res.Failures, fmt.Sprintf("proved clause is false on a real execution: %s (%s); inputs %v", s.Name, rec.Reason, compactModel(s.ModelVals)))
			case rec.Verdict == "not-reproduced" && strings.Contains(rec.Reason, "clause holds"):
				res.Validated++
				if len(res.Samples) < 3 {
					res.Samples = append(res.Samples, map[string]interface{}{"obligation": s.Name, "inputs": compactModel(s.ModelVals), "verdict": "proved clause holds on the real execution"})
				}
			default:
				res.NotReplayable++
			}
		}(s)
	}
	wg.Wait()
	_ = os.Getenv
	return res
}
