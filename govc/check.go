package main

// Property check: `govc check <PROP> [--tier quick|thorough]`.
// Verifies every function under contract that carries a clause labelled with the property,
// discharges all obligations, replays counterexamples against the real code, applies the
// known-findings file, writes evidence and prints VIOLATION / KNOWN-FINDING lines.

import (
	"os/exec"
	"encoding/json"
	"flag"
	"fmt"
	"os"
	"path/filepath"
	"runtime"
	"sort"
	"strconv"
	"strings"
	"sync"
	"time"
)

type FindingsFile struct {
	Version  int        `json:"version"`
	Findings []*Finding `json:"findings"`
}

func loadFindings(path string) (*FindingsFile, error) {
	ff := &FindingsFile{}
	b, err := os.ReadFile(path)
	if err != nil {
		if os.IsNotExist(err) {
			return ff, nil
		}
		return nil, err
	}
	if err := json.Unmarshal(b, ff); err != nil {
		return nil, fmt.Errorf("%s: %v", path, err)
	}
	return ff, nil
}

func contractHasProp(c *Contract, prop string) bool {
	for _, cl := range c.Clauses {
		switch cl.Kind {
		case "requires", "trusted":
			continue
		}
		if len(cl.Labels) > 0 && cl.HasLabel(prop) {
			return true
		}
	}
	for _, l := range c.Loops {
		for _, inv := range l.Invs {
			if len(inv.Labels) > 0 && inv.HasLabel(prop) {
				return true
			}
		}
	}
	return false
}

type funcReport struct {
	Dep     bool // verified as a dependency (callee contract the property's proof relies on), all clauses
	Key     string
	Res     *VerifyResult
	X       *Exec
	Seconds float64
}

func matchObl(pattern, name string) bool {
	if strings.HasSuffix(pattern, "*") {
		return strings.HasPrefix(name, strings.TrimSuffix(pattern, "*"))
	}
	return pattern == name
}

func cmdCheck(args []string) int {
	fs := flag.NewFlagSet("check", flag.ExitOnError)
	tier := fs.String("tier", os.Getenv("VERIF_TIER"), "quick|thorough")
	repo := fs.String("repo", "/repo", "repository under verification")
	verif := fs.String("verif", "/verif", "verification directory")
	only := fs.String("only", "", "restrict to functions with this key prefix (debugging)")
	replayPath := fs.String("replay", "", "re-run a recorded replay file")
	noEvidence := fs.Bool("no-evidence", false, "do not write the evidence file (selftest)")
	// flags may come before or after the property id ("./check C06 --tier thorough")
	{
		var flags, pos []string
		for i := 0; i < len(args); i++ {
			a := args[i]
			if strings.HasPrefix(a, "-") {
				flags = append(flags, a)
				name := strings.TrimLeft(a, "-")
				if !strings.Contains(a, "=") && name != "no-evidence" && i+1 < len(args) {
					i++
					flags = append(flags, args[i])
				}
			} else {
				pos = append(pos, a)
			}
		}
		args = append(flags, pos...)
	}
	fs.Parse(args)
	if fs.NArg() < 1 {
		fmt.Fprintln(os.Stderr, "usage: govc check <PROP> [--tier quick|thorough]")
		return 2
	}
	prop := fs.Arg(0)
	if *tier == "" {
		*tier = "quick"
	}
	seed := 0
	if s := os.Getenv("VERIF_SEED"); s != "" {
		seed, _ = strconv.Atoi(s)
	}
	if *replayPath != "" {
		return rerunReplay(*replayPath, *repo)
	}
	t0 := time.Now()
	prog, err := LoadProgram(*repo, *verif)
	if err != nil {
		fmt.Fprintln(os.Stderr, "govc: cannot load:", err)
		return 2
	}
	ff, err := loadFindings(filepath.Join(*verif, "known_findings.json"))
	if err != nil {
		fmt.Fprintln(os.Stderr, "govc:", err)
		return 2
	}
	scratch, _ := os.MkdirTemp("", "govc-"+prop+"-")
	defer os.RemoveAll(scratch)
	timeout := 40 // quick: no obligation of the unchanged tree needs more than a third of this on an idle machine (see coverage.slowest)
	if *tier == "thorough" {
		timeout = 120
	}
	opts := SolveOpts{Timeout: timeout, Thorough: *tier == "thorough", ScratchDir: scratch}

	if rc := attachRegions(prog, ff); rc != 0 {
		return rc
	}

	// functions in the property's closure
	var keys []string
	for k, c := range prog.Contracts {
		if contractHasProp(c, prop) && (*only == "" || strings.HasPrefix(k, *only)) {
			keys = append(keys, k)
		}
	}
	sort.Strings(keys)
	if len(keys) == 0 {
		fmt.Fprintf(os.Stderr, "govc: no function under contract carries property %s\n", prop)
		return 2
	}
	sem := make(chan struct{}, runtime.NumCPU())
	runKeys := func(keys []string, dep bool) []*funcReport {
		reports := make([]*funcReport, len(keys))
		var wg sync.WaitGroup
		for i, k := range keys {
			wg.Add(1)
			go func(i int, k string) {
				defer wg.Done()
				sem <- struct{}{}
				defer func() { <-sem }()
				t := time.Now()
				fn := prog.Funcs[k]
				rep := &funcReport{Key: k, Dep: dep}
				if c := prog.Contracts[k]; c != nil && c.Extern {
					rep.Res = &VerifyResult{Key: k, Trusted: true}
				} else if fn == nil {
					rep.Res = &VerifyResult{Key: k, Aborted: "contract names a function that does not exist in the current tree"}
				} else {
					p := prop
					if dep || os.Getenv("GOVC_LABELONLY") == "" {
						p = "" // every clause of a function the property's proof relies on
					}
					x := NewExec(prog, fn, p)
					if dep || os.Getenv("GOVC_LABELONLY") == "" {
						x.depOf = prop
					}
					x.findings = ff.Findings
					rep.X = x
					rep.Res = x.Verify()
					if k == "packet.CRC16" && prop == "C03" {
						x.crcMetaObligations()
						rep.Res.Obls = x.obls
					}
				}
				rep.Seconds = time.Since(t).Seconds()
				reports[i] = rep
			}(i, k)
		}
		wg.Wait()
		return reports
	}
	reports := runKeys(keys, false)
	// dependency closure: the proofs above assumed the contracts of the callees at every call site.  Callees that
	// carry no clause of this property would otherwise be verified only by another property's check; a change that
	// breaks this property through such a callee would then be reported there, not here.  They are verified here
	// too, with all their clauses, transitively.
	var depKeys []string
	if *only == "" && os.Getenv("GOVC_NOCLOSURE") == "" {
		done := map[string]bool{}
		for _, k := range keys {
			done[k] = true
		}
		frontier := reports
		for len(frontier) > 0 {
			var next []string
			for _, r := range frontier {
				if r.Res == nil {
					continue
				}
				for _, u := range r.Res.UsedContracts {
					c := prog.Contracts[u]
					fn := prog.Funcs[u]
					if done[u] || c == nil || c.Extern || c.Trusted || fn == nil || fn.Blocks == nil {
						continue
					}
					done[u] = true
					next = append(next, u)
				}
			}
			sort.Strings(next)
			frontier = runKeys(next, true)
			reports = append(reports, frontier...)
			depKeys = append(depKeys, next...)
		}
	}

	var all []*Obligation
	var covers []*Obligation
	engineErrors := []string{}
	var trusted []string
	for _, r := range reports {
		if r.Res.Trusted {
			trusted = append(trusted, r.Key)
			continue
		}
		if r.Res.Aborted != "" {
			engineErrors = append(engineErrors, fmt.Sprintf("%s: %s", r.Key, r.Res.Aborted))
			continue
		}
		all = append(all, r.Res.Obls...)
		covers = append(covers, r.Res.Covers...)
	}
	// known findings: attach regions to matching obligations
	for _, o := range all {
		for _, f := range ff.Findings {
			if f.Status != "open" || (f.Property != prop && (o.x == nil || o.x.depOf == "")) {
				continue
			}
			for _, pat := range f.Obligations {
				if matchObl(pat, o.Name) {
					o.Finding = f
				}
			}
		}
	}
	for _, o := range all {
		if o.Finding != nil && o.Finding.Region != "" {
			re, _ := ParseExpr(o.Finding.Region)
			if err := o.x.guard("region of "+o.Finding.ID, func() { o.Region = o.x.regionCtx().Bool(re) }); err != nil {
				engineErrors = append(engineErrors, err.Error())
			}
		} else if o.Finding != nil {
			o.Region = o.x.tb.True()
		}
	}
	Discharge(all, opts, runtime.NumCPU(), true)

	// vacuity: every function must have a reachable return (cover), requires satisfiable
	coverFail := 0
	coverChecked := 0
	{
		byFunc := map[string][]*Obligation{}
		for _, c := range covers {
			byFunc[c.Func] = append(byFunc[c.Func], c)
		}
		var sel []*Obligation
		for _, cs := range byFunc {
			if *tier == "thorough" {
				sel = append(sel, cs...)
			} else {
				sel = append(sel, cs[0], cs[len(cs)-1])
			}
		}
		// cover queries are checked on the quantifier-free part of the path condition: hypothesis-side
		// quantifiers (callee ensures, invariants) make "sat" undecidable for the solvers, and they are
		// consequences of proved contracts; ground contradictions (the usual vacuity bug) are still found
		for _, cs := range byFunc {
			for _, c := range cs {
				var ground []*Term
				for _, a := range c.Asserts {
					ground = append(ground, c.x.tb.DropQuantifiers(a))
				}
				c.Asserts = ground
			}
		}
		Discharge(sel, SolveOpts{Timeout: 10, ScratchDir: scratch}, runtime.NumCPU(), false)
		okFunc := map[string]bool{}
		for _, c := range sel {
			coverChecked++
			if c.Result.Status == "sat" {
				okFunc[c.Func] = true
			}
		}
		for f := range byFunc {
			if !okFunc[f] {
				// retry all covers of that function before declaring vacuity
				Discharge(byFunc[f], SolveOpts{Timeout: 20, ScratchDir: scratch}, runtime.NumCPU(), false)
				for _, c := range byFunc[f] {
					if c.Result.Status == "sat" {
						okFunc[f] = true
					}
				}
			}
			if !okFunc[f] {
				coverFail++
				engineErrors = append(engineErrors, fmt.Sprintf("%s: vacuity: no reachable return site (contradictory requires?)", f))
			}
		}
	}

	// vacuity of implications: for every "A ==> B" ensures clause, A must be satisfiable (ground part of the
	// path condition) at one return site at least; otherwise the clause was proved about nothing
	vacuousClauses := 0
	anteChecked := 0
	{
		byClause := map[string][]*Obligation{}
		var order []string
		for _, r := range reports {
			if r.Res.Trusted || r.Res.Aborted != "" {
				continue
			}
			for _, c := range r.Res.AnteCovers {
				if _, ok := byClause[c.Name]; !ok {
					order = append(order, c.Name)
				}
				byClause[c.Name] = append(byClause[c.Name], c)
			}
		}
		// first round: one return site per clause (the last ones are usually the success paths), then the rest
		pending := map[string]bool{}
		var round []*Obligation
		for _, n := range order {
			cs := byClause[n]
			pending[n] = true
			round = append(round, cs[len(cs)-1])
		}
		prep := func(os []*Obligation) {
			for _, c := range os {
				var ground []*Term
				for _, a := range c.Asserts {
					ground = append(ground, c.x.tb.DropQuantifiers(a))
				}
				c.Asserts = ground
			}
		}
		prep(round)
		Discharge(round, SolveOpts{Timeout: 10, ScratchDir: scratch}, runtime.NumCPU(), false)
		anteChecked += len(round)
		for _, c := range round {
			if c.Result.Status == "sat" {
				delete(pending, c.Name)
			}
		}
		var rest []*Obligation
		for n := range pending {
			cs := byClause[n]
			rest = append(rest, cs[:len(cs)-1]...)
		}
		prep(rest)
		Discharge(rest, SolveOpts{Timeout: 10, ScratchDir: scratch}, runtime.NumCPU(), false)
		anteChecked += len(rest)
		for _, c := range append(rest, round...) {
			// only a definite "unsat" at every return site counts as vacuous (a busy machine must not raise alarms)
			if c.Result != nil && c.Result.Status != "unsat" {
				delete(pending, c.Name)
			}
		}
		for n := range pending {
			// a clause whose antecedent is unsatisfiable everywhere: allowed only when a known finding explains it
			if hasOpenFinding(ff.Findings, prop, n) {
				continue
			}
			vacuousClauses++
			engineErrors = append(engineErrors, fmt.Sprintf("vacuity: antecedent never satisfiable at any return site: %s", n))
		}
	}

	// classify
	replayDir := filepath.Join(*verif, "out", "replay", prop)
	os.MkdirAll(replayDir, 0755)
	violations := 0
	discharged := 0
	byBackend := map[string]int{}
	solverS := 0.0
	secondAgreed := 0
	var knownLines []string
	depFindings := []string{}
	findingSeen := map[string]bool{}
	var samples []map[string]interface{}
	var failed []*Obligation
	for _, o := range all {
		r := o.Result
		solverS += r.Seconds
		if r.Status == "unsat" {
			discharged++
			byBackend[r.Solver]++
			if len(r.Agree) > 0 {
				secondAgreed++
			}
			if len(samples) < 12 && !o.Trivial && (len(samples) < 4 || o.Kind != "safety") {
				samples = append(samples, map[string]interface{}{"obligation": o.Name, "kind": o.Kind, "solver": r.Solver, "s": round2(r.Seconds), "smt_bytes": len(r.Script)})
			}
			continue
		}
		failed = append(failed, o)
	}
	// known findings present? (the obligation must still fail inside its region)
	var inRegion []*Obligation
	for _, o := range all {
		if o.Finding != nil {
			c := &Obligation{Name: o.Name, Kind: o.Kind, Func: o.Func, Asserts: append(append([]*Term(nil), o.Asserts...), o.Region), Goal: o.Goal, x: o.x, Inputs: o.Inputs, Outputs: o.Outputs, PanicObl: o.PanicObl, Finding: o.Finding}
			inRegion = append(inRegion, c)
		}
	}
	Discharge(inRegion, opts, runtime.NumCPU(), true)
	for _, c := range inRegion {
		if c.Result.Status != "unsat" && !findingSeen[c.Finding.ID] {
			findingSeen[c.Finding.ID] = true
			if c.Finding.Property != prop {
				// a finding of another property met in a dependency: recorded and reported by that property's check
				depFindings = append(depFindings, fmt.Sprintf("%s (%s) at %s", c.Finding.ID, c.Finding.Property, c.Name))
				continue
			}
			knownLines = append(knownLines, fmt.Sprintf("KNOWN-FINDING: property=%s %s [%s] obligation=%s", prop, c.Finding.What, c.Finding.ID, c.Name))
		}
	}
	sort.Strings(knownLines)
	for _, l := range knownLines {
		fmt.Println(l)
	}
	// violations
	sort.Slice(failed, func(i, j int) bool { return failed[i].Name < failed[j].Name })
	reported := map[string]bool{}
	for _, o := range failed {
		if reported[o.Name] {
			continue
		}
		reported[o.Name] = true
		violations++
		rp := doReplay(prog, o, prop, replayDir, scratch)
		suffix := ""
		if rp.Verdict != "confirmed" {
			suffix = " no-failing-input-found"
		}
		where := ""
		if o.Finding != nil {
			where = " (outside the recorded region of " + o.Finding.ID + ")"
		}
		fmt.Printf("VIOLATION property=%s replay=%s obligation=%q status=%s%s%s\n", prop, rp.Path, o.Name, o.Result.Status, where, suffix)
	}
	for i, e := range engineErrors {
		// the contracts no longer apply to the code (function or variable gone, construct outside the supported subset,
		// a post-condition's antecedent or a return site no longer reachable): the obligation "the contract applies and
		// is not vacuous" fails.  Undecided rather than refuted, hence no failing input.
		fmt.Fprintf(os.Stderr, "govc: ENGINE/CONTRACT ERROR: %s\n", e)
		path := filepath.Join(replayDir, fmt.Sprintf("contract_does_not_apply_%d.json", i))
		rb, _ := json.MarshalIndent(map[string]interface{}{"property": prop, "obligation": "contract applies to the current code and is not vacuous", "reason": e}, "", " ")
		os.WriteFile(path, rb, 0644)
		fmt.Printf("VIOLATION property=%s replay=%s obligation=%q status=contract-does-not-apply no-failing-input-found\n", prop, path, e)
		violations++
	}

	// self-check of the translator: a sample of proved post-conditions re-evaluated on real executions
	scN := 24
	if *tier == "thorough" {
		scN = 240
	}
	if v, err := strconv.Atoi(os.Getenv("GOVC_SELFCHECK_N")); err == nil {
		scN = v
	}
	sc := selfCheck(prog, all, scN, int64(seed), scratch)
	for _, f := range sc.Failures {
		engineErrors = append(engineErrors, "self-check: "+f)
		fmt.Fprintf(os.Stderr, "govc: SELF-CHECK FAILED: %s\n", f)
		path := filepath.Join(replayDir, "selfcheck_failure.json")
		os.WriteFile(path, []byte(fmt.Sprintf("%q", f)), 0644)
		fmt.Printf("VIOLATION property=%s replay=%s obligation=%q status=selfcheck-failed no-failing-input-found\n", prop, path, "govc translator self-check")
		violations++
	}

	// bounded stand-ins (labelled bounded, never counted as proved)
	if h, ok := boundedHarness[prop]; ok && *only == "" {
		bv, be := runBounded(prop, h, *tier, int64(seed), *repo, *verif, replayDir, scratch)
		violations += bv
		engineErrors = append(engineErrors, be...)
		for _, e := range be {
			fmt.Fprintf(os.Stderr, "govc: ENGINE/CONTRACT ERROR: %s\n", e)
			fmt.Printf("VIOLATION property=%s replay=%s obligation=%q status=bounded-harness-failed no-failing-input-found\n", prop, filepath.Join(replayDir, "bounded_harness_error.json"), e)
			os.WriteFile(filepath.Join(replayDir, "bounded_harness_error.json"), []byte(fmt.Sprintf("%q", e)), 0644)
			violations++
		}
	}

	// evidence
	var fuc []string
	unmodelled := map[string]bool{}
	models := map[string]bool{}
	inlined := map[string]bool{}
	warnings := map[string]bool{}
	used := map[string]bool{}
	paths := 0
	for _, r := range reports {
		if r.Res.Trusted {
			continue
		}
		fuc = append(fuc, r.Key)
		paths += r.Res.Returns
		for _, u := range r.Res.Unmodelled {
			unmodelled[u] = true
		}
		for _, u := range r.Res.Models {
			models[u] = true
		}
		for _, u := range r.Res.Inlined {
			inlined[u] = true
		}
		for _, u := range r.Res.Warnings {
			warnings[u] = true
		}
		for _, u := range r.Res.UsedContracts {
			used[u] = true
		}
	}
	wall := time.Since(t0).Seconds()
	assumptions := []string{
		"Go type safety (no unsafe in the repository); distinct input slices/pointers do not alias unless a contract says so",
		"x/tools go/ssa v0.29.0 builds the same program the gc compiler compiles",
		"govc SSA->SMT translation (bit-vector integers of exact width; nothing treated as mathematical)",
		"partial correctness: termination is not proved",
		"append never writes into spare capacity observed by another live slice (modelled as a fresh copy)",
		"package-level variables keep the values their initialisers gave them",
		"ghost counters / stream positions (spec/transport.spec) do not overflow 2^62",
		fmt.Sprintf("input slices shorter than 2^%d elements", maxLenBits),
	}
	for m := range models {
		assumptions = append(assumptions, "assumed contract (built-in model) of "+m)
	}
	for m := range unmodelled {
		assumptions = append(assumptions, "unmodelled, result havocked: "+m)
	}
	for _, tkey := range trusted {
		assumptions = append(assumptions, "trusted contract (body not verified here): "+tkey)
	}
	for k := range used {
		if c := prog.Contracts[k]; c != nil && c.Trusted {
			assumptions = append(assumptions, "trusted contract (body not verified): "+k)
		}
	}
	for k := range prog.Ifaces {
		for _, r := range reports {
			if r.X != nil && r.X.fn.Pkg != nil && strings.HasPrefix(k, shortPkg(r.X.fn.Pkg.Pkg.Path())+"|") {
				assumptions = append(assumptions, "environment contract assumed: "+k)
				break
			}
		}
	}
	sort.Strings(assumptions[8:])
	sort.Strings(prog.RenameNotes)
	ev := map[string]interface{}{
		"property_id": prop, "tier": *tier, "seed": seed, "level": "proof", "wall_s": round2(wall), "violations": violations,
		"coverage": map[string]interface{}{
			"obligations": len(all), "discharged": discharged,
			"checker_cmd":              fmt.Sprintf("./check %s --tier %s", prop, *tier),
			"trusted_base":             []string{"x/tools go/ssa v0.29.0", "govc symbolic executor and SMT encoding (/verif/govc)", "z3 5.1.0 (z3-new)", "cvc5 1.0.3", "z3 4.8.12", "/verif/spec/*.spec (transcribed from MODBUS Application Protocol V1.1b3 and MODBUS over Serial Line V1.02)"},
			"functions_under_contract": fuc, "by_backend": byBackend, "solver_s": round2(solverS), "slowest": slowest(all, 8), "solver_timeout_s": timeout, "second_opinion_agreed": secondAgreed,
			"return_sites_explored": paths, "covers_checked": coverChecked + anteChecked, "vacuity_failures": coverFail + vacuousClauses,
			"known_findings": knownLines, "samples": samples,
			"inlined_without_contract": sortedKeys(inlined), "contracts_used_at_call_sites": sortedKeys(used),
			"unmodelled_calls": sortedKeys(unmodelled), "engine_warnings": sortedKeys(warnings),
			"engine_errors": engineErrors,
			"all_clauses_of_selected_functions": os.Getenv("GOVC_LABELONLY") == "",
			"dependency_closure": map[string]interface{}{"what": "labels select the functions a property depends on; every clause of those functions is verified (callers assume all of them), and callee contracts used by the proofs that carry no clause of this property are verified here too, transitively", "functions": append([]string{}, depKeys...), "findings_of_other_properties_met": depFindings},
			"renamed_variables_recovered": append([]string{}, prog.RenameNotes...),
			"bounded":       boundedEvidence, "structural": structuralEvidence,
			"traces_validated_against_impl": sc.Validated,
			"translator_selfcheck": map[string]interface{}{"what": "proved post-conditions re-evaluated on real executions driven down the same path (inputs from the solver)", "sampled": sc.Sampled, "validated": sc.Validated, "no_model": sc.NoModel, "not_replayable": sc.NotReplayable, "failures": len(sc.Failures), "samples": sc.Samples},
		},
		"assumptions": assumptions,
	}
	if !*noEvidence {
		os.MkdirAll(filepath.Join(*verif, "evidence"), 0755)
		b, _ := json.MarshalIndent(ev, "", " ")
		os.WriteFile(filepath.Join(*verif, "evidence", prop+".json"), b, 0644)
	}
	for _, n := range prog.RenameNotes {
		fmt.Println("note: " + n)
	}
	fmt.Printf("govc: property %s tier %s: %d functions under contract, %d obligations, %d discharged, %d violations, %d known findings, %.1fs\n",
		prop, *tier, len(fuc), len(all), discharged, violations, len(knownLines), wall)
	if violations > 0 {
		return 1
	}
	return 0
}

var boundedEvidence = []map[string]interface{}{}

// boundedHarness: properties with a bounded run-time contract check of the real functions (go test -overlay).
type boundedSpec struct {
	File, PkgDir, Run, What string
}

var boundedHarness = map[string]boundedSpec{
	"C05": {"bounded/builder_bounded_test.go", ".", "TestZZBoundedBuilder", "assumed contract of modbus.groupForSingleConnection (Go map keyed by a formatted string) and the whole-pipeline conjuncts 'every field exactly once' / 'window ends where its furthest field ends' / extraction equals device memory, on the real split / ExtractFields"},
	"C06": {"bounded/builder_bounded_test.go", ".", "TestZZBoundedBuilder", "assumed contract of modbus.groupForSingleConnection (Go map keyed by a formatted string) and the whole-pipeline conjuncts 'every field exactly once' / 'window ends where its furthest field ends' on the real split"},
}

func runBounded(prop string, h boundedSpec, tier string, seed int64, repo, verif, replayDir, scratch string) (int, []string) {
	t0 := time.Now()
	ov := filepath.Join(scratch, "bounded_overlay.json")
	target := filepath.Join(repo, h.PkgDir, "zz_bounded_verif_test.go")
	b, _ := json.Marshal(map[string]interface{}{"Replace": map[string]string{target: filepath.Join(verif, h.File)}})
	os.WriteFile(ov, b, 0644)
	cmd := exec.Command("go", "test", "-overlay", ov, "-vet=off", "-count=1", "-timeout", "1500s", "-v", "-run", "^"+h.Run+"$", ".")
	cmd.Dir = filepath.Join(repo, h.PkgDir)
	cmd.Env = append(os.Environ(), "VERIF_TIER="+tier, fmt.Sprintf("VERIF_SEED=%d", seed))
	out, err := cmd.CombinedOutput()
	var rep map[string]interface{}
	for _, l := range strings.Split(string(out), "\n") {
		if i := strings.Index(l, "BOUNDED {"); i >= 0 {
			json.Unmarshal([]byte(l[i+8:]), &rep)
		}
	}
	if rep == nil {
		tail := string(out)
		if len(tail) > 600 {
			tail = tail[len(tail)-600:]
		}
		return 0, []string{"bounded harness " + h.File + " produced no report: " + tail}
	}
	rep["what"] = h.What
	rep["label"] = "bounded - not proved"
	rep["harness"] = h.File
	rep["wall_s"] = round2(time.Since(t0).Seconds())
	boundedEvidence = append(boundedEvidence, rep)
	if v, _ := rep["violation"].(string); v != "" || err != nil {
		path := filepath.Join(replayDir, "bounded_"+h.Run+".json")
		rb, _ := json.MarshalIndent(map[string]interface{}{"property": prop, "kind": "bounded run-time contract check on the real code", "report": rep,
			"rerun": fmt.Sprintf("cd /repo && go test -overlay <overlay mapping zz_bounded_verif_test.go to %s> -vet=off -run %s .", filepath.Join(verif, h.File), h.Run)}, "", " ")
		os.WriteFile(path, rb, 0644)
		fmt.Printf("VIOLATION property=%s replay=%s bounded-check=%q failing-input-replayed-on-real-code\n", prop, path, v)
		return 1, nil
	}
	return 0, nil
}
var structuralEvidence = []map[string]interface{}{}

func slowest(all []*Obligation, n int) []map[string]interface{} {
	idx := make([]*Obligation, 0, len(all))
	for _, o := range all {
		if o.Result != nil {
			idx = append(idx, o)
		}
	}
	sort.Slice(idx, func(i, j int) bool { return idx[i].Result.Seconds > idx[j].Result.Seconds })
	var out []map[string]interface{}
	for i := 0; i < n && i < len(idx); i++ {
		nm := idx[i].Name
		if len(nm) > 160 {
			nm = nm[:160]
		}
		out = append(out, map[string]interface{}{"obligation": nm, "solver": idx[i].Result.Solver, "s": round2(idx[i].Result.Seconds)})
	}
	return out
}

func round2(f float64) float64 { return float64(int(f*100+0.5)) / 100 }

func (x *Exec) regionCtx() *EvalCtx {
	var params []SVal
	for _, in := range x.inputs {
		params = append(params, in.Val)
	}
	st := &State{mem: x.entryMem, ghost: map[string]SVal{}, cuts: map[string]bool{}}
	return x.evalCtxFor(x.contract, st, st, nil, params, x.fn.Signature, nil, false)
}

// attachRegions attaches the regions of open findings to the matching contract clauses (callers then
// assume a clause only outside its region, plus the recorded behaviour inside it).
func attachRegions(prog *Program, ff *FindingsFile) int {
	for _, f := range ff.Findings {
		if f.Status != "open" || f.Region == "" {
			continue
		}
		re, err := ParseExpr(f.Region)
		if err != nil {
			fmt.Fprintf(os.Stderr, "govc: known finding %s: bad region: %v\n", f.ID, err)
			return 2
		}
		for _, c := range prog.Contracts {
			for _, cl := range c.Clauses {
				if cl.Kind != "ensures" {
					continue
				}
				name := fmt.Sprintf("%s/ensures%s(%s)", c.Key, cl.LabelString(), cl.Text)
				for _, pat := range f.Obligations {
					if matchObl(pat, name) {
						cl.Region = re
						if f.Observed != "" {
							oe, err := ParseExpr(f.Observed)
							if err != nil {
								fmt.Fprintf(os.Stderr, "govc: known finding %s: bad observed: %v\n", f.ID, err)
								return 2
							}
							cl.Observed = oe
						}
					}
				}
			}
		}
	}

	return 0
}
