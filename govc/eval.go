package main

// Evaluation of spec expressions (contracts, spec functions) to symbolic values.

import (
	"fmt"
	"go/constant"
	"go/types"
	"math/big"
	"strings"
)

type EV struct {
	V     SVal
	T     types.Type // Go type; nil for untyped constant / nil literal / type value
	Const *big.Int   // untyped integer constant
	IsNil bool       // the literal nil
	TypeV types.Type // a type used as a value (dyntype comparisons, conversions)
}

type specError struct{ msg string }

func (e specError) Error() string { return e.msg }

func specFail(f string, a ...interface{}) { panic(specError{fmt.Sprintf(f, a...)}) }

type EvalCtx struct {
	x      *Exec
	st     *State
	old    *State
	cur    *State // inside old(...): the state old() was entered from (for now(...))
	pkg    *types.Package
	names  map[string]EV
	lookup func(name string) (EV, bool)
	lookupAddr func(name string) (*PtrV, bool) // address of a local variable kept in memory (loop contexts)
	lookupOuter func(name string) (EV, bool)   // the enclosing loop's variable of that name
	prove  bool // true: goal position (forall skolemised); false: assumption (real quantifier)
	replay bool // re-evaluation on values hydrated from a real run: identities of objects/functions are not available
	bvars  []*Term // bound variables of the enclosing real quantifiers (skolem terms must depend on them)
	depth  int
}

func (c *EvalCtx) clone() *EvalCtx {
	n := *c
	return &n
}

var tInt = types.Typ[types.Int]
var tBool = types.Typ[types.Bool]

func (c *EvalCtx) resolveType(name string) types.Type {
	name = strings.TrimSpace(name)
	if strings.HasPrefix(name, "*") {
		return types.NewPointer(c.resolveType(name[1:]))
	}
	if strings.HasPrefix(name, "[]") {
		return types.NewSlice(c.resolveType(name[2:]))
	}
	switch name {
	case "error":
		return types.Universe.Lookup("error").Type()
	case "any":
		return types.Universe.Lookup("any").Type()
	}
	if o := types.Universe.Lookup(name); o != nil {
		if tn, ok := o.(*types.TypeName); ok {
			return tn.Type()
		}
	}
	if i := strings.Index(name, "."); i >= 0 {
		pk, nm := name[:i], name[i+1:]
		p := c.findPackage(pk)
		if p == nil {
			specFail("unknown package %q in type %q", pk, name)
		}
		if o := p.Scope().Lookup(nm); o != nil {
			if tn, ok := o.(*types.TypeName); ok {
				return tn.Type()
			}
		}
		specFail("unknown type %q", name)
	}
	if c.pkg != nil {
		if o := c.pkg.Scope().Lookup(name); o != nil {
			if tn, ok := o.(*types.TypeName); ok {
				return tn.Type()
			}
		}
	}
	// search all repo packages
	for _, pk := range c.x.prog.Pkgs {
		if o := pk.Types.Scope().Lookup(name); o != nil {
			if tn, ok := o.(*types.TypeName); ok {
				return tn.Type()
			}
		}
	}
	specFail("unknown type %q", name)
	return nil
}

func (c *EvalCtx) findPackage(name string) *types.Package {
	for short, pk := range c.x.prog.Pkgs {
		if short == name || pk.Types.Name() == name {
			return pk.Types
		}
	}
	if c.pkg != nil {
		for _, imp := range c.pkg.Imports() {
			if imp.Name() == name {
				return imp
			}
		}
	}
	for _, pk := range c.x.prog.Pkgs {
		for _, imp := range pk.Types.Imports() {
			if imp.Name() == name {
				return imp
			}
		}
	}
	return nil
}

func (c *EvalCtx) term(e EV, what string) *Term {
	t, ok := e.V.(*Term)
	if !ok {
		specFail("%s: expected scalar, got %T", what, e.V)
	}
	return t
}

// coerceConst turns an untyped constant into a typed term of type t.
func (c *EvalCtx) coerceConst(e EV, t types.Type) EV {
	if e.Const == nil {
		return e
	}
	if w, _, ok := isInteger(t); ok {
		return EV{V: c.x.tb.BVc(w, e.Const), T: t}
	}
	if fw, ok := isFloat(t); ok {
		f, _ := new(big.Float).SetInt(e.Const).Float64()
		if fw == 64 {
			return EV{V: c.x.tb.BVc(64, new(big.Int).SetUint64(float64bits(f))), T: t}
		}
		return EV{V: c.x.tb.BVc(32, new(big.Int).SetUint64(uint64(float32bits(float32(f))))), T: t}
	}
	specFail("cannot use constant %s as %s", e.Const, t)
	return e
}

func (c *EvalCtx) toBool(e EV, what string) *Term {
	t := c.term(e, what)
	if t.sort.K != KBool {
		specFail("%s: expected bool, got %v", what, t.sort)
	}
	return t
}

func (c *EvalCtx) Bool(e *Expr) *Term { return c.toBool(c.Eval(e), e.String()) }

func (c *EvalCtx) toIndex(e EV) *Term {
	if e.Const != nil {
		return c.x.tb.BVc(64, e.Const)
	}
	t := c.term(e, "index")
	if e.T == nil {
		specFail("index without type")
	}
	return c.x.toInt64(t, e.T)
}

func (c *EvalCtx) Eval(e *Expr) EV {
	x := c.x
	tb := x.tb
	switch e.Op {
	case "lit":
		return EV{Const: e.Lit}
	case "str":
		return EV{V: x.strConst(e.Name), T: types.Typ[types.String]}
	case "typ":
		return EV{TypeV: c.resolveType(e.Type)}
	case "ident":
		return c.ident(e.Name)
	case "un":
		a := c.Eval(e.Args[0])
		switch e.Name {
		case "!":
			nc := c.clone()
			nc.prove = !c.prove
			return EV{V: tb.Not(nc.Bool(e.Args[0])), T: tBool}
		case "-":
			if a.Const != nil {
				return EV{Const: new(big.Int).Neg(a.Const)}
			}
			return EV{V: tb.BVNeg(c.term(a, "neg")), T: a.T}
		case "^":
			if a.Const != nil {
				return EV{Const: new(big.Int).Not(a.Const)}
			}
			return EV{V: tb.BVNot(c.term(a, "not")), T: a.T}
		}
	case "bin":
		return c.bin(e)
	case "sel":
		return c.sel(e)
	case "index":
		base := c.Eval(e.Args[0])
		idx := c.toIndex(c.Eval(e.Args[1]))
		switch bv := base.V.(type) {
		case *SliceV:
			return EV{V: x.readElem(c.st, bv.Obj, tb.BVBin("bvadd", bv.Off, idx), nil, bv.Elem), T: bv.Elem}
		case *ArrayV:
			if _, ok := scalarSort(bv.T.Elem()); ok {
				return EV{V: x.Select(bv.Leaves[""], idx), T: bv.T.Elem()}
			}
		case *PtrV:
			if at, ok := bv.Elem.Underlying().(*types.Array); ok {
				b := bv.Idx
				if b == nil {
					b = tb.BVi(64, 0)
				}
				return EV{V: x.readElem(c.st, bv.Obj, tb.BVBin("bvadd", b, idx), nil, at.Elem()), T: at.Elem()}
			}
		}
		specFail("cannot index %T in %s", base.V, e)
	case "slice":
		base := c.Eval(e.Args[0])
		sv, ok := base.V.(*SliceV)
		if !ok {
			if pv, isP := base.V.(*PtrV); isP {
				if at, isA := pv.Elem.Underlying().(*types.Array); isA {
					b := pv.Idx
					if b == nil {
						b = tb.BVi(64, 0)
					}
					sv = &SliceV{Obj: pv.Obj, IsNil: tb.False(), Off: b, Len: tb.BVi(64, at.Len()), Cap: tb.BVi(64, at.Len()), Elem: at.Elem()}
					ok = true
				}
			}
		}
		if !ok {
			specFail("cannot slice %T", base.V)
		}
		lo := tb.BVi(64, 0)
		if e.Args[1] != nil {
			lo = c.toIndex(c.Eval(e.Args[1]))
		}
		hi := sv.Len
		if e.Args[2] != nil {
			hi = c.toIndex(c.Eval(e.Args[2]))
		}
		return EV{V: &SliceV{Obj: sv.Obj, IsNil: sv.IsNil, Off: tb.BVBin("bvadd", sv.Off, lo), Len: tb.BVBin("bvsub", hi, lo), Cap: tb.BVBin("bvsub", sv.Cap, lo), Elem: sv.Elem}, T: base.T}
	case "tassert":
		a := c.Eval(e.Args[0])
		iv, ok := a.V.(*IfaceV)
		if !ok {
			specFail("type assertion on non-interface %T", a.V)
		}
		t := c.resolveType(e.Type)
		if iv.Dyn != nil && !types.Identical(iv.Dyn, t) {
			// assertion on a value of another concrete type: meaningless; give a fresh value
			return EV{V: x.symbolic(c.st, t, "tassert", false, 1), T: t}
		}
		return EV{V: x.payloadFor(c.st, iv, t), T: t}
	case "call":
		return c.call(e)
	case "forall", "exists":
		lo := c.toIndex(c.Eval(e.Args[0]))
		hi := c.toIndex(c.Eval(e.Args[1]))
		isForall := e.Op == "forall"
		nc := c.clone()
		nc.names = map[string]EV{}
		for k, v := range c.names {
			nc.names[k] = v
		}
		skolem := (isForall && c.prove) || (!isForall && !c.prove)
		var kv *Term
		if skolem {
			if len(c.bvars) > 0 {
				// under a real quantifier: skolem FUNCTION of the enclosing bound variables
				var sorts []Sort
				for _, b := range c.bvars {
					sorts = append(sorts, b.sort)
				}
				f := tb.DeclareFun(tb.Fresh(e.Var+"!skf", SBool).name, sorts, BV(64))
				kv = tb.App(f, c.bvars...)
			} else if !isForall {
				kv = tb.Fresh(e.Var+"!wit", BV(64)) // witness of a hypothesis-side existential
			} else {
				kv = tb.Fresh(e.Var+"!sk", BV(64))
			}
		} else {
			kv = tb.BoundVar(e.Var, BV(64))
			nc.bvars = append(append([]*Term(nil), c.bvars...), kv)
		}
		nc.names[e.Var] = EV{V: kv, T: tInt}
		rng := tb.And(tb.BVCmp("bvsle", lo, kv), tb.BVCmp("bvslt", kv, hi))
		if !skolem {
			x.curBVars = append(x.curBVars, kv)
		}
		body := nc.Bool(e.Args[2])
		if !skolem {
			x.curBVars = x.curBVars[:len(x.curBVars)-1]
		}
		if isForall {
			r := tb.Implies(rng, body)
			if skolem {
				return EV{V: r, T: tBool}
			}
			q := tb.Forall(kv, r)
			// hypothesis-side quantifier: also state it in "shifted" form for every array read at k+c in the body
			// (forall j :: body[k := j-c]) - an equivalent formula in which E-matching finds A[j] directly
			for n, c0 := range tb.IndexOffsets(r, kv) {
				if n >= 4 {
					break
				}
				jv := tb.BoundVar(e.Var+"s", BV(64))
				shifted := tb.Subst(r, kv, tb.BVBin("bvsub", jv, c0))
				q = tb.And(q, tb.Forall(jv, shifted))
			}
			return EV{V: q, T: tBool}
		}
		r := tb.And(rng, body)
		if skolem {
			return EV{V: r, T: tBool}
		}
		return EV{V: tb.Not(tb.Forall(kv, tb.Not(r))), T: tBool}
	}
	specFail("cannot evaluate %s", e)
	return EV{}
}

func (c *EvalCtx) ident(name string) EV {
	x := c.x
	tb := x.tb
	if v, ok := c.names[name]; ok {
		return v
	}
	if c.lookup != nil {
		if v, ok := c.lookup(name); ok {
			return v
		}
	}
	switch name {
	case "nil":
		return EV{IsNil: true}
	case "true":
		return EV{V: tb.True(), T: tBool}
	case "false":
		return EV{V: tb.False(), T: tBool}
	}
	if g, ok := c.st.ghost[name]; ok {
		return EV{V: g, T: x.ghostDecl[name]}
	}
	var obj types.Object
	if c.pkg != nil {
		obj = c.pkg.Scope().Lookup(name)
	}
	if obj == nil {
		for _, pk := range x.prog.Pkgs {
			if o := pk.Types.Scope().Lookup(name); o != nil {
				obj = o
				break
			}
		}
	}
	if obj == nil {
		if o := types.Universe.Lookup(name); o != nil {
			obj = o
		}
	}
	switch o := obj.(type) {
	case *types.Const:
		return c.constEV(o)
	case *types.TypeName:
		return EV{TypeV: o.Type()}
	case *types.Var:
		return c.globalEV(o)
	case *types.Func:
		return EV{V: c.funcValue(o), T: o.Type()}
	}
	specFail("unknown identifier %q", name)
	return EV{}
}

func (c *EvalCtx) funcValue(o *types.Func) SVal {
	fn := c.x.prog.SSA.FuncValue(o)
	return &FuncV{Fn: fn, IsNil: c.x.tb.False(), Id: c.x.funcId(fn.String()), Sig: o.Type().(*types.Signature), Name: fn.String()}
}

func (c *EvalCtx) constEV(o *types.Const) EV {
	x := c.x
	t := o.Type()
	if b, ok := t.(*types.Basic); ok && b.Info()&types.IsUntyped != 0 {
		if o.Val().Kind() == constant.Int {
			v, _ := new(big.Int).SetString(o.Val().ExactString(), 10)
			return EV{Const: v}
		}
	}
	if w, _, ok := isInteger(t); ok {
		v, _ := new(big.Int).SetString(constant.ToInt(o.Val()).ExactString(), 10)
		return EV{V: x.tb.BVc(w, v), T: t}
	}
	if isBool(t) {
		return EV{V: x.tb.Bool(constant.BoolVal(o.Val())), T: t}
	}
	if isString(t) {
		return EV{V: x.strConst(constant.StringVal(o.Val())), T: t}
	}
	specFail("unsupported constant %s", o.Name())
	return EV{}
}

func (c *EvalCtx) globalEV(o *types.Var) EV {
	x := c.x
	spkg := x.prog.SSA.Package(o.Pkg())
	if spkg == nil {
		specFail("global %s: package not built", o.Name())
	}
	g, ok := spkg.Members[o.Name()].(interface{ Type() types.Type })
	_ = g
	gl := spkg.Var(o.Name())
	if !ok || gl == nil {
		specFail("global %s not found", o.Name())
	}
	obj := x.globalObj(c.st, gl)
	if obj.Array {
		at := o.Type().Underlying().(*types.Array)
		av := &ArrayV{T: at, Leaves: map[string]*Content{}}
		for k, ct := range x.objState(c.st, obj).Leaves {
			av.Leaves[k] = ct
		}
		return EV{V: av, T: o.Type()}
	}
	return EV{V: x.objState(c.st, obj).Val, T: o.Type()}
}

func fieldByName(t types.Type, name string) (path []int, ft types.Type, ok bool) {
	// breadth-first through embedded fields
	type item struct {
		t    types.Type
		path []int
	}
	q := []item{{t, nil}}
	for len(q) > 0 {
		var next []item
		for _, it := range q {
			tt := it.t
			if p, isP := tt.Underlying().(*types.Pointer); isP {
				tt = p.Elem()
			}
			s, isS := tt.Underlying().(*types.Struct)
			if !isS {
				continue
			}
			for i := 0; i < s.NumFields(); i++ {
				f := s.Field(i)
				if f.Name() == name {
					return append(append([]int(nil), it.path...), i), f.Type(), true
				}
			}
			for i := 0; i < s.NumFields(); i++ {
				f := s.Field(i)
				if f.Embedded() {
					next = append(next, item{f.Type(), append(append([]int(nil), it.path...), i)})
				}
			}
		}
		q = next
	}
	return nil, nil, false
}

func (c *EvalCtx) sel(e *Expr) EV {
	x := c.x
	// package-qualified identifier?
	if e.Args[0].Op == "ident" {
		if _, isName := c.names[e.Args[0].Name]; !isName {
			shadow := false
			if c.lookup != nil {
				_, shadow = c.lookup(e.Args[0].Name)
			}
			if !shadow {
				if p := c.findPackage(e.Args[0].Name); p != nil {
					nc := c.clone()
					nc.pkg = p
					nc.names = map[string]EV{}
					nc.lookup = nil
					return nc.ident(e.Name)
				}
			}
		}
	}
	base := c.Eval(e.Args[0])
	v := base.V
	t := base.T
	if pv, ok := v.(*PtrV); ok {
		v = x.load(c.st, pv, pv.Elem)
		t = pv.Elem
	}
	sv, ok := v.(*StructV)
	if !ok {
		specFail("selector .%s on %T (%s)", e.Name, v, e)
	}
	if t == nil {
		t = sv.T
	}
	path, ft, found := fieldByName(t, e.Name)
	if !found {
		specFail("no field %s in %s", e.Name, t)
	}
	// path may cross embedded pointers - not supported
	return EV{V: getPath(sv, path), T: ft}
}

func (c *EvalCtx) bin(e *Expr) EV {
	x := c.x
	tb := x.tb
	op := e.Name
	switch op {
	case "==>":
		nc := c.clone()
		nc.prove = !c.prove
		a := nc.Bool(e.Args[0])
		b := c.Bool(e.Args[1])
		return EV{V: tb.Implies(a, b), T: tBool}
	case "<==>":
		// evaluate both directions with proper polarity
		nc := c.clone()
		nc.prove = !c.prove
		a1, b1 := nc.Bool(e.Args[0]), c.Bool(e.Args[1])
		a2, b2 := c.Bool(e.Args[0]), nc.Bool(e.Args[1])
		return EV{V: tb.And(tb.Implies(a1, b1), tb.Implies(b2, a2)), T: tBool}
	case "&&":
		return EV{V: tb.And(c.Bool(e.Args[0]), c.Bool(e.Args[1])), T: tBool}
	case "||":
		return EV{V: tb.Or(c.Bool(e.Args[0]), c.Bool(e.Args[1])), T: tBool}
	}
	a := c.Eval(e.Args[0])
	b := c.Eval(e.Args[1])
	if op == "==" || op == "!=" {
		r := c.equal(a, b, e)
		if op == "!=" {
			r = tb.Not(r)
		}
		return EV{V: r, T: tBool}
	}
	if op == "<<" || op == ">>" {
		if a.Const != nil && b.Const != nil {
			if op == "<<" {
				return EV{Const: new(big.Int).Lsh(a.Const, uint(b.Const.Int64()))}
			}
			return EV{Const: new(big.Int).Rsh(a.Const, uint(b.Const.Int64()))}
		}
		if a.Const != nil {
			specFail("shift of untyped constant by variable in %s: add a conversion", e)
		}
		at := c.term(a, "shift")
		w, signed, _ := isInteger(a.T)
		var cnt *Term
		if b.Const != nil {
			cnt = tb.BVc(w, b.Const)
			if b.Const.Cmp(big.NewInt(int64(w))) >= 0 {
				cnt = tb.BVi(w, int64(w))
			}
		} else {
			bt := c.term(b, "shift count")
			wb := bt.sort.W
			if wb > w {
				cnt = tb.Ite(tb.BVCmp("bvuge", bt, tb.BVi(wb, int64(w))), tb.BVi(w, int64(w)), tb.Extract(w-1, 0, bt))
			} else {
				cnt = tb.ZExt(w, bt)
			}
		}
		if op == "<<" {
			return EV{V: tb.BVBin("bvshl", at, cnt), T: a.T}
		}
		if signed {
			return EV{V: tb.BVBin("bvashr", at, cnt), T: a.T}
		}
		return EV{V: tb.BVBin("bvlshr", at, cnt), T: a.T}
	}
	// arithmetic / comparison
	if a.Const != nil && b.Const != nil {
		r := new(big.Int)
		switch op {
		case "+":
			return EV{Const: r.Add(a.Const, b.Const)}
		case "-":
			return EV{Const: r.Sub(a.Const, b.Const)}
		case "*":
			return EV{Const: r.Mul(a.Const, b.Const)}
		case "/":
			return EV{Const: r.Quo(a.Const, b.Const)}
		case "%":
			return EV{Const: r.Rem(a.Const, b.Const)}
		case "&":
			return EV{Const: r.And(a.Const, b.Const)}
		case "|":
			return EV{Const: r.Or(a.Const, b.Const)}
		case "^":
			return EV{Const: r.Xor(a.Const, b.Const)}
		case "<":
			return EV{V: tb.Bool(a.Const.Cmp(b.Const) < 0), T: tBool}
		case "<=":
			return EV{V: tb.Bool(a.Const.Cmp(b.Const) <= 0), T: tBool}
		case ">":
			return EV{V: tb.Bool(a.Const.Cmp(b.Const) > 0), T: tBool}
		case ">=":
			return EV{V: tb.Bool(a.Const.Cmp(b.Const) >= 0), T: tBool}
		}
	}
	if a.Const != nil {
		a = c.coerceConst(a, b.T)
	}
	if b.Const != nil {
		b = c.coerceConst(b, a.T)
	}
	at, bt := c.term(a, e.String()), c.term(b, e.String())
	if at.sort != bt.sort {
		specFail("operand width mismatch in %s (%s vs %s): add a conversion", e, a.T, b.T)
	}
	w, signed, isInt := isInteger(a.T)
	_, sb, _ := isInteger(b.T)
	if !isInt {
		specFail("arithmetic on non-integer in %s", e)
	}
	if signed != sb {
		specFail("signedness mismatch in %s (%s vs %s): add a conversion", e, a.T, b.T)
	}
	_ = w
	switch op {
	case "+":
		return EV{V: tb.BVBin("bvadd", at, bt), T: a.T}
	case "-":
		return EV{V: tb.BVBin("bvsub", at, bt), T: a.T}
	case "*":
		return EV{V: tb.BVBin("bvmul", at, bt), T: a.T}
	case "/":
		if signed {
			return EV{V: tb.BVBin("bvsdiv", at, bt), T: a.T}
		}
		return EV{V: tb.BVBin("bvudiv", at, bt), T: a.T}
	case "%":
		if signed {
			return EV{V: tb.BVBin("bvsrem", at, bt), T: a.T}
		}
		return EV{V: tb.BVBin("bvurem", at, bt), T: a.T}
	case "&":
		return EV{V: tb.BVBin("bvand", at, bt), T: a.T}
	case "|":
		return EV{V: tb.BVBin("bvor", at, bt), T: a.T}
	case "^":
		return EV{V: tb.BVBin("bvxor", at, bt), T: a.T}
	case "&^":
		return EV{V: tb.BVBin("bvand", at, tb.BVNot(bt)), T: a.T}
	case "<", "<=", ">", ">=":
		pre := "bvu"
		if signed {
			pre = "bvs"
		}
		suf := map[string]string{"<": "lt", "<=": "le", ">": "gt", ">=": "ge"}[op]
		return EV{V: tb.BVCmp(pre+suf, at, bt), T: tBool}
	}
	specFail("unknown operator %s", op)
	return EV{}
}

func (c *EvalCtx) equal(a, b EV, e *Expr) *Term {
	x := c.x
	tb := x.tb
	if a.IsNil && !b.IsNil {
		a, b = b, a
	}
	if b.IsNil {
		switch av := a.V.(type) {
		case *PtrV:
			return av.IsNil
		case *SliceV:
			return av.IsNil
		case *IfaceV:
			return tb.Eq(av.Tag, tb.Intc(0))
		case *FuncV:
			return av.IsNil
		case *OpaqueV:
			return av.IsNil
		}
		if a.IsNil {
			return tb.True()
		}
		specFail("comparison with nil of %T in %s", a.V, e)
	}
	// dyntype(x) == *T
	if a.TypeV != nil || b.TypeV != nil {
		if a.TypeV != nil && b.TypeV == nil {
			a, b = b, a
		}
		if a.TypeV != nil {
			return tb.Bool(types.Identical(a.TypeV, b.TypeV))
		}
		at := c.term(a, "dyntype")
		return tb.Eq(at, x.typeTag(b.TypeV))
	}
	if a.Const != nil && b.Const != nil {
		return tb.Bool(a.Const.Cmp(b.Const) == 0)
	}
	if a.Const != nil {
		a = c.coerceConst(a, b.T)
	}
	if b.Const != nil {
		b = c.coerceConst(b, a.T)
	}
	if c.replay {
		switch a.V.(type) {
		case *PtrV, *IfaceV, *FuncV, *SliceV:
			specFail("identity comparison %s cannot be re-evaluated on replayed values", e)
		}
	}
	switch av := a.V.(type) {
	case *Term:
		bt := c.term(b, e.String())
		if av.sort != bt.sort {
			specFail("comparison width mismatch in %s (%s vs %s)", e, a.T, b.T)
		}
		return tb.Eq(av, bt)
	case *PtrV:
		return x.ptrEq(av, b.V.(*PtrV))
	case *IfaceV:
		bi, ok := b.V.(*IfaceV)
		if !ok {
			// comparing interface with concrete pointer value: wrap
			if bp, isP := b.V.(*PtrV); isP {
				bi = &IfaceV{Dyn: b.T, Val: bp, Tag: x.typeTag(b.T), Id: tb.Ite(bp.IsNil, tb.Intc(0), tb.Intc(int64(bp.Obj.ID)))}
			} else {
				specFail("cannot compare interface with %T in %s", b.V, e)
			}
		}
		return x.ifaceEq(av, bi)
	case *StructV:
		return x.structEq(av, b.V.(*StructV))
	case *FuncV:
		bf := b.V.(*FuncV)
		return tb.And(tb.Eq(av.IsNil, bf.IsNil), tb.Or(av.IsNil, tb.Eq(c.fid(av), c.fid(bf))))
	case *SliceV:
		// slice header equality (same object, offset, length)
		bs := b.V.(*SliceV)
		if av.Obj != bs.Obj {
			return tb.And(tb.Eq(av.Len, tb.BVi(64, 0)), tb.Eq(bs.Len, tb.BVi(64, 0)), tb.Eq(av.IsNil, bs.IsNil))
		}
		return tb.And(tb.Eq(av.Off, bs.Off), tb.Eq(av.Len, bs.Len))
	}
	specFail("cannot compare %T in %s", a.V, e)
	return nil
}

func (c *EvalCtx) fid(f *FuncV) *Term {
	if f.Id != nil {
		return f.Id
	}
	return c.x.funcId(f.Name)
}

func (x *Exec) funcId(name string) *Term {
	if x.funcIds == nil {
		x.funcIds = map[string]int64{}
	}
	if v, ok := x.funcIds[name]; ok {
		return x.tb.Intc(v)
	}
	v := int64(10000 + len(x.funcIds))
	x.funcIds[name] = v
	return x.tb.Intc(v)
}

func (c *EvalCtx) convertTo(a EV, t types.Type, e *Expr) EV {
	x := c.x
	tb := x.tb
	if a.Const != nil {
		return c.coerceConst(a, t)
	}
	if a.T == nil {
		specFail("conversion of untyped value in %s", e)
	}
	if _, ok := a.V.(*Term); !ok {
		// conversion between named struct/slice types: identity
		return EV{V: a.V, T: t}
	}
	at := a.V.(*Term)
	wf, sf, fi := isInteger(a.T)
	wt, _, ti := isInteger(t)
	if fi && ti {
		if wt <= wf {
			return EV{V: tb.Extract(wt-1, 0, at), T: t}
		}
		if sf {
			return EV{V: tb.SExt(wt, at), T: t}
		}
		return EV{V: tb.ZExt(wt, at), T: t}
	}
	if isBool(a.T) && isBool(t) {
		return EV{V: at, T: t}
	}
	if isString(a.T) && isString(t) {
		return EV{V: at, T: t}
	}
	if _, ff := isFloat(a.T); ff {
		if _, tf := isFloat(t); tf {
			return EV{V: at, T: t}
		}
	}
	specFail("unsupported conversion %s -> %s in %s", a.T, t, e)
	return EV{}
}

func (c *EvalCtx) call(e *Expr) EV {
	x := c.x
	tb := x.tb
	fnE := e.Args[0]
	args := e.Args[1:]
	if fnE.Op == "ident" {
		name := fnE.Name
		switch name {
		case "len", "cap":
			a := c.Eval(args[0])
			switch v := a.V.(type) {
			case *SliceV:
				if name == "len" {
					return EV{V: v.Len, T: tInt}
				}
				return EV{V: v.Cap, T: tInt}
			case *ArrayV:
				return EV{V: tb.BVi(64, v.T.Len()), T: tInt}
			case *Term:
				if isString(a.T) {
					return EV{V: x.strLen(v), T: tInt}
				}
			}
			specFail("%s of %T", name, a.V)
		case "old":
			nc := c.clone()
			nc.st = c.old
			if c.cur == nil {
				nc.cur = c.st
			}
			return nc.Eval(args[0])
		case "atlock":
			// atlock(e): e evaluated in the state right after the most recent mutex acquisition of this path (after the
			// havoc of shared fields); the entry state when the mutex was never taken
			if c.replay {
				specFail("atlock cannot be re-evaluated on replayed values")
			}
			nc := c.clone()
			if c.st != nil && c.st.lockSnap != nil {
				nc.st = c.st.lockSnap
			} else {
				nc.st = c.old
			}
			if c.cur == nil {
				nc.cur = c.st
			}
			return nc.Eval(args[0])
		case "snap":
			if c.replay {
				specFail("snap cannot be re-evaluated on replayed values")
			}
			// snap(e, *T, field): field of the object behind interface/pointer e as recorded when it first became an interface value
			a := c.Eval(args[0])
			var id *Term
			switch v := a.V.(type) {
			case *IfaceV:
				id = v.Id
			case *PtrV:
				id = tb.Ite(v.IsNil, tb.Intc(0), tb.Intc(int64(v.Obj.ID)))
			default:
				specFail("snap of %T", a.V)
			}
			if args[1].Op != "typ" || args[2].Op != "ident" {
				specFail("snap(e, *T, field)")
			}
			pt, ok := c.resolveType(args[1].Type).(*types.Pointer)
			if !ok {
				specFail("snap: pointer type expected")
			}
			path, ft, found := fieldByName(pt.Elem(), args[2].Name)
			if !found {
				specFail("snap: no field %s in %s", args[2].Name, pt.Elem())
			}
			srt, isScalar := scalarSort(ft)
			if !isScalar {
				specFail("snap: field %s is not a scalar", args[2].Name)
			}
			return EV{V: tb.App(x.snapFun(pt.Elem(), pathKey(path), srt), id), T: ft}
		case "outer":
			if c.lookupOuter == nil || args[0].Op != "ident" {
				specFail("outer(name) is only available in loop invariants")
			}
			if v, ok := c.lookupOuter(args[0].Name); ok {
				return v
			}
			specFail("outer(%s): no enclosing definition", args[0].Name)
		case "now":
			// inside old(...): evaluate a sub-expression in the current state
			if c.cur == nil {
				return c.Eval(args[0])
			}
			nc := c.clone()
			nc.st = c.cur
			nc.cur = nil
			return nc.Eval(args[0])
		case "backing":
			// the whole backing array object of a slice (for modifies clauses)
			a := c.Eval(args[0])
			sv, ok := a.V.(*SliceV)
			if !ok {
				specFail("backing of %T", a.V)
			}
			return EV{V: &PtrV{IsNil: tb.False(), Obj: sv.Obj, Elem: sv.Elem}}
		case "deref":
			a := c.Eval(args[0])
			pv, ok := a.V.(*PtrV)
			if !ok {
				specFail("deref of %T", a.V)
			}
			return EV{V: x.load(c.st, pv, pv.Elem), T: pv.Elem}
		case "ite":
			cnd := c.Bool(args[0])
			a, b := c.Eval(args[1]), c.Eval(args[2])
			if a.Const != nil && b.Const != nil {
				specFail("ite of two untyped constants: add a conversion")
			}
			if a.Const != nil {
				a = c.coerceConst(a, b.T)
			}
			if b.Const != nil {
				b = c.coerceConst(b, a.T)
			}
			return EV{V: tb.Ite(cnd, c.term(a, "ite"), c.term(b, "ite")), T: a.T}
		case "dyntype":
			a := c.Eval(args[0])
			iv, ok := a.V.(*IfaceV)
			if ok && c.replay && iv.Dyn == nil && !(iv.Tag.IsConst() && iv.Tag.val.Sign() == 0) {
				specFail("dynamic type of a replayed value of an unnamed/foreign type is not available")
			}
			if !ok {
				specFail("dyntype of non-interface")
			}
			return EV{V: iv.Tag, T: nil}
		case "float32bits", "float64bits":
			a := c.Eval(args[0])
			t := types.Typ[types.Uint32]
			if name == "float64bits" {
				t = types.Typ[types.Uint64]
			}
			return EV{V: c.term(a, name), T: t}
		case "char":
			a := c.Eval(args[0])
			return EV{V: x.strChar(c.term(a, "char"), c.toIndex(c.Eval(args[1]))), T: types.Typ[types.Int32]}
		case "atomicval":
			loc := c.evalLoc(args[0])
			lt := loc.Elem
			var vt types.Type = types.Typ[types.Int64]
			if strings.HasSuffix(types.TypeString(lt, nil), "atomic.Bool") {
				vt = types.Typ[types.Bool]
			}
			return EV{V: x.atomicGet(c.st, loc, vt), T: vt}
		case "mapHas", "mapAt":
			a := c.Eval(args[0])
			mv, ok := a.V.(*MapV)
			if !ok {
				specFail("%s of %T", name, a.V)
			}
			q := c.toIndex(c.Eval(args[1]))
			if name == "mapHas" {
				return EV{V: x.Select(x.objState(c.st, mv.Obj).Leaves["#present"], q), T: tBool}
			}
			return EV{V: x.readElem(c.st, mv.Obj, q, nil, mv.Elem), T: mv.Elem}
		case "idxkey":
			q := c.toIndex(c.Eval(args[0]))
			return EV{V: tb.App(tb.DeclareFun("map.idxkey", []Sort{BV(64)}, SInt), q), T: types.Typ[types.String]}
		case "keyidx":
			a := c.Eval(args[0])
			t, ok := a.V.(*Term)
			if !ok || !isString(a.T) {
				specFail("keyidx of a non-string")
			}
			return EV{V: x.keyIdx(c.st, t), T: tInt}
		case "sprintf":
			// sprintf("fmt", a, b, ...): the value fmt.Sprintf returns for these arguments (same uninterpreted function as the model)
			if args[0].Op != "str" || len(args) < 2 || len(args) > 5 {
				specFail("sprintf(\"format\", 1..4 values)")
			}
			o := x.newArrayObject(c.st, "spec.sprintf.args", types.Universe.Lookup("any").Type(), tb.BVi(64, int64(len(args)-1)), false, true)
			for i, ae := range args[1:] {
				av := c.Eval(ae)
				if av.Const != nil {
					specFail("sprintf: untyped constant argument; add a conversion")
				}
				t, ok := av.V.(*Term)
				if !ok {
					specFail("sprintf: scalar arguments only")
				}
				iv := &IfaceV{Dyn: av.T, Val: t, Tag: x.typeTag(av.T), Id: tb.Intc(1)}
				x.ifaceBits(iv)
				x.writeElem(c.st, o, tb.BVi(64, int64(i)), nil, o.Elem, iv)
			}
			n := tb.BVi(64, int64(len(args)-1))
			r, ok := x.sprintfModel(c.st, x.strConst(args[0].Name), &SliceV{Obj: o, IsNil: tb.False(), Off: tb.BVi(64, 0), Len: n, Cap: n, Elem: o.Elem})
			if !ok {
				specFail("sprintf: cannot model these arguments")
			}
			return EV{V: r, T: types.Typ[types.String]}
		case "mapsize":
			a := c.Eval(args[0])
			ov, ok := a.V.(*OpaqueV)
			if !ok {
				specFail("mapsize of %T", a.V)
			}
			return EV{V: x.mapSize(c.st, ov), T: tInt}
		case "buflen", "bufbyte":
			loc := c.evalLoc(args[0])
			ct, n := x.bbGet(c.st, loc)
			if name == "buflen" {
				return EV{V: n, T: tInt}
			}
			return EV{V: x.Select(ct, c.toIndex(c.Eval(args[1]))), T: types.Typ[types.Uint8]}
		case "sblen", "sbchar":
			a := c.Eval(args[0])
			pv, ok := a.V.(*PtrV)
			if !ok {
				specFail("%s needs a *strings.Builder", name)
			}
			ct, n := x.sbGet(c.st, pv)
			if name == "sblen" {
				return EV{V: n, T: tInt}
			}
			return EV{V: x.Select(ct, c.toIndex(c.Eval(args[1]))), T: types.Typ[types.Int32]}
		case "nilish":
			// interface that is nil or holds a nil pointer
			a := c.Eval(args[0])
			switch v := a.V.(type) {
			case *IfaceV:
				return EV{V: tb.Or(tb.Eq(v.Tag, tb.Intc(0)), tb.Eq(v.Id, tb.Intc(0))), T: tBool}
			case *PtrV:
				return EV{V: v.IsNil, T: tBool}
			}
			specFail("nilish of %T", a.V)
		case "implements":
			if c.replay {
				specFail("implements cannot be re-evaluated on replayed values")
			}
			// implements(x, I): the dynamic type of interface value x implements interface I
			a := c.Eval(args[0])
			iv, ok := a.V.(*IfaceV)
			if !ok || args[1].Op != "ident" {
				specFail("implements(ifaceValue, InterfaceName)")
			}
			it := c.resolveType(args[1].Name)
			if iv.Dyn != nil {
				return EV{V: tb.Bool(types.Implements(iv.Dyn, it.Underlying().(*types.Interface))), T: tBool}
			}
			return EV{V: x.implementsUF(iv, it), T: tBool}
		case "isnil":
			a := c.Eval(args[0])
			return EV{V: c.equal(a, EV{IsNil: true}, e), T: tBool}
		case "fresh":
			if c.replay {
				specFail("fresh cannot be re-evaluated on replayed values")
			}
			// fresh(s): the slice's backing object was allocated during this call
			a := c.Eval(args[0])
			switch v := a.V.(type) {
			case *SliceV:
				return EV{V: tb.Or(v.IsNil, tb.Bool(!v.Obj.Pre)), T: tBool}
			case *PtrV:
				return EV{V: tb.Or(v.IsNil, tb.Bool(!v.Obj.Pre)), T: tBool}
			}
			specFail("fresh of %T", a.V)
		case "sameobj":
			if c.replay {
				specFail("sameobj cannot be re-evaluated on replayed values")
			}
			a, b := c.Eval(args[0]), c.Eval(args[1])
			return EV{V: tb.Bool(objOf(a.V) == objOf(b.V)), T: tBool}
		case "aliases":
			if c.replay {
				specFail("aliases cannot be re-evaluated on replayed values")
			}
			// aliases(s, t, lo, hi): s is exactly t[lo:hi]
			a, b := c.Eval(args[0]), c.Eval(args[1])
			as, ok1 := a.V.(*SliceV)
			bs, ok2 := b.V.(*SliceV)
			if !ok1 || !ok2 {
				specFail("aliases needs slices")
			}
			lo, hi := c.toIndex(c.Eval(args[2])), c.toIndex(c.Eval(args[3]))
			if as.Obj != bs.Obj {
				return EV{V: tb.False(), T: tBool}
			}
			return EV{V: tb.And(tb.Eq(as.Off, tb.BVBin("bvadd", bs.Off, lo)), tb.Eq(as.Len, tb.BVBin("bvsub", hi, lo))), T: tBool}
		case "crc16":
			a := c.Eval(args[0])
			sv, ok := a.V.(*SliceV)
			if !ok {
				specFail("crc16 needs a slice")
			}
			n := c.toIndex(c.Eval(args[1]))
			if c.replay {
				// concrete re-evaluation: fold the definition over the actual bytes
				if !n.IsConst() || n.val.Sign() < 0 || n.val.Int64() > 4096 || sv.Obj.Dummy {
					specFail("crc16 over a non-concrete length cannot be re-evaluated on replayed values")
				}
				cur := tb.BVi(16, 0xFFFF)
				cont := x.objState(c.st, sv.Obj).Leaves[""]
				for i := int64(0); i < n.val.Int64(); i++ {
					cur = x.crcStep(cur, x.Select(cont, tb.BVBin("bvadd", sv.Off, tb.BVi(64, i))))
				}
				return EV{V: cur, T: types.Typ[types.Uint16]}
			}
			return EV{V: x.crcTerm(c.st, sv, n), T: types.Typ[types.Uint16]}
		case "errIs":
			if c.replay {
				specFail("errIs cannot be re-evaluated on replayed values")
			}
			a, b := c.Eval(args[0]), c.Eval(args[1])
			return EV{V: x.errIs(a.V.(*IfaceV), b.V.(*IfaceV)), T: tBool}
		case "event":
			// event("name") : number of occurrences of event in this path - concrete
			specFail("event() not supported in expressions")
		}
		// conversion?
		if tv := c.tryType(name); tv != nil {
			return c.convertTo(c.Eval(args[0]), tv, e)
		}
		if sf, ok := x.prog.Specs[name]; ok {
			return c.specCall(sf, args, e)
		}
		specFail("unknown function %q in %s", name, e)
	}
	if fnE.Op == "typ" {
		return c.convertTo(c.Eval(args[0]), c.resolveType(fnE.Type), e)
	}
	if fnE.Op == "sel" && fnE.Args[0].Op == "ident" {
		// pkg.Type(x) conversion
		if p := c.findPackage(fnE.Args[0].Name); p != nil {
			if o, ok := p.Scope().Lookup(fnE.Name).(*types.TypeName); ok {
				return c.convertTo(c.Eval(args[0]), o.Type(), e)
			}
		}
	}
	specFail("unsupported call %s", e)
	return EV{}
}

func objOf(v SVal) *Object {
	switch t := v.(type) {
	case *MapV:
		return t.Obj
	case *SliceV:
		return t.Obj
	case *PtrV:
		return t.Obj
	}
	return nil
}

func (c *EvalCtx) tryType(name string) (t types.Type) {
	defer func() {
		if r := recover(); r != nil {
			if _, ok := r.(specError); ok {
				t = nil
				return
			}
			panic(r)
		}
	}()
	if _, isSpec := c.x.prog.Specs[name]; isSpec {
		return nil
	}
	return c.resolveType(name)
}

func (x *Exec) strLen(s *Term) *Term {
	f := x.tb.DeclareFun("strlen", []Sort{SInt}, BV(64))
	return x.tb.App(f, s)
}

func (c *EvalCtx) specCall(sf *SpecFun, args []*Expr, e *Expr) EV {
	x := c.x
	if len(args) != len(sf.Params) {
		specFail("spec function %s: %d args, want %d", sf.Name, len(args), len(sf.Params))
	}
	if c.depth > 40 {
		specFail("spec function recursion too deep in %s", sf.Name)
	}
	nc := c.clone()
	nc.depth = c.depth + 1
	nc.names = map[string]EV{}
	nc.lookup = nil
	var uargs []*Term
	for i, p := range sf.Params {
		a := c.Eval(args[i])
		pt := c.resolveType(p.Type)
		if a.Const != nil {
			a = c.coerceConst(a, pt)
		}
		if at, ok := a.V.(*Term); ok {
			if s, isS := scalarSort(pt); isS && at.sort != s {
				specFail("spec function %s arg %s: sort %v, want %s", sf.Name, p.Name, at.sort, p.Type)
			}
			uargs = append(uargs, at)
		}
		a.T = pt
		nc.names[p.Name] = a
	}
	rt := c.resolveType(sf.Ret)
	if sf.Uninterp {
		var sorts []Sort
		for _, u := range uargs {
			sorts = append(sorts, u.sort)
		}
		if len(uargs) != len(sf.Params) {
			specFail("ufun %s takes scalar arguments only", sf.Name)
		}
		rs, _ := scalarSort(rt)
		f := x.tb.DeclareFun("spec."+sf.Name, sorts, rs)
		return EV{V: x.tb.App(f, uargs...), T: rt}
	}
	r := nc.Eval(sf.Body)
	if r.Const != nil {
		r = c.coerceConst(r, rt)
	}
	r.T = rt
	return r
}

// indexOffsets returns the distinct expressions c such that the body indexes something with v+c or c+v.
func indexOffsets(body *Expr, v string) []*Expr {
	var out []*Expr
	seen := map[string]bool{}
	mentions := func(e *Expr) bool {
		found := false
		var w func(e *Expr)
		w = func(e *Expr) {
			if e == nil || found {
				return
			}
			if e.Op == "ident" && e.Name == v {
				found = true
				return
			}
			for _, a := range e.Args {
				w(a)
			}
		}
		w(e)
		return found
	}
	var walk func(e *Expr)
	walk = func(e *Expr) {
		if e == nil {
			return
		}
		if e.Op == "index" {
			ix := e.Args[1]
			if ix.Op == "bin" && ix.Name == "+" {
				var off *Expr
				if ix.Args[0].Op == "ident" && ix.Args[0].Name == v && !mentions(ix.Args[1]) {
					off = ix.Args[1]
				} else if ix.Args[1].Op == "ident" && ix.Args[1].Name == v && !mentions(ix.Args[0]) {
					off = ix.Args[0]
				}
				if off != nil && !seen[off.String()] {
					seen[off.String()] = true
					out = append(out, off)
				}
			}
		}
		if e.Op == "forall" || e.Op == "exists" {
			if e.Var == v {
				return
			}
		}
		for _, a := range e.Args {
			walk(a)
		}
	}
	walk(body)
	return out
}

// evalLoc evaluates an expression to the LOCATION it denotes (pointer), e.g. m.received -> &m.received.
func (c *EvalCtx) evalLoc(e *Expr) *PtrV {
	switch e.Op {
	case "ident":
		if c.lookupAddr != nil {
			if _, shadow := c.names[e.Name]; !shadow {
				if p, ok := c.lookupAddr(e.Name); ok {
					return p
				}
			}
		}
	case "sel":
		var base *PtrV
		if bv, ok := c.tryEvalPtr(e.Args[0]); ok {
			base = bv
		} else {
			base = c.evalLoc(e.Args[0])
		}
		path, ft, found := fieldByName(base.Elem, e.Name)
		if !found {
			specFail("no field %s in %s", e.Name, base.Elem)
		}
		return &PtrV{IsNil: c.x.tb.False(), Obj: base.Obj, Idx: base.Idx, Path: append(append([]int(nil), base.Path...), path...), Elem: ft}
	}
	if bv, ok := c.tryEvalPtr(e); ok {
		return bv
	}
	specFail("not a location: %s", e)
	return nil
}

func (c *EvalCtx) tryEvalPtr(e *Expr) (p *PtrV, ok bool) {
	defer func() {
		if r := recover(); r != nil {
			if _, isSpec := r.(specError); isSpec {
				p, ok = nil, false
				return
			}
			panic(r)
		}
	}()
	v := c.Eval(e)
	p, ok = v.V.(*PtrV)
	return
}
