package main

import (
	"os"
	"fmt"
	"math/big"
	"strings"
	"sync"
)

// model extraction terms for an obligation: scalars of inputs, slice headers and first cells.
const modelCells = 300

type modelQuery struct {
	terms []*Term
	descr []string
}

func (x *Exec) modelTerms(vals []NamedVal, st map[*Object]*ObjState, mq *modelQuery, prefix string) {
	tb := x.tb
	var rec func(name string, v SVal, depth int)
	rec = func(name string, v SVal, depth int) {
		if depth > 4 {
			return
		}
		switch t := v.(type) {
		case *Term:
			mq.terms = append(mq.terms, t)
			mq.descr = append(mq.descr, name)
		case *StructV:
			s, _ := t.T.Underlying().(interface{ NumFields() int })
			_ = s
			for i, f := range t.Fields {
				fn := fmt.Sprintf("%d", i)
				if ts, ok := structOf(t.T); ok {
					fn = ts.Field(i).Name()
				}
				rec(name+"."+fn, f, depth+1)
			}
		case *SliceV:
			mq.terms = append(mq.terms, t.IsNil, t.Len, t.Cap)
			mq.descr = append(mq.descr, name+"#isnil", name+"#len", name+"#cap")
			if os, ok := st[t.Obj]; ok && t.Obj.Array {
				if c, has := os.Leaves[""]; has {
					for i := 0; i < modelCells; i++ {
						mq.terms = append(mq.terms, x.Select(c, tb.BVBin("bvadd", t.Off, tb.BVi(64, int64(i)))))
						mq.descr = append(mq.descr, fmt.Sprintf("%s#%d", name, i))
					}
				}
			}
		case *PtrV:
			mq.terms = append(mq.terms, t.IsNil)
			mq.descr = append(mq.descr, name+"#isnil")
			if os, ok := st[t.Obj]; ok && !t.Obj.Array {
				rec(name+"^", getPath(os.Val, t.Path), depth+1)
			}
		case *ArrayV:
			if c, ok := t.Leaves[""]; ok {
				for i := int64(0); i < t.T.Len() && i < modelCells; i++ {
					mq.terms = append(mq.terms, x.Select(c, tb.BVi(64, i)))
					mq.descr = append(mq.descr, fmt.Sprintf("%s#%d", name, i))
				}
			}
		case *ArrayRef:
			if os, ok := st[t.Obj]; ok {
				if c, has := os.Leaves[""]; has {
					for i := int64(0); i < t.T.Len() && i < modelCells; i++ {
						mq.terms = append(mq.terms, x.Select(c, tb.BVi(64, i)))
						mq.descr = append(mq.descr, fmt.Sprintf("%s#%d", name, i))
					}
				}
			}
		case *IfaceV:
			mq.terms = append(mq.terms, t.Tag)
			mq.descr = append(mq.descr, name+"#tag")
		case *FuncV:
			mq.terms = append(mq.terms, t.IsNil)
			mq.descr = append(mq.descr, name+"#isnil")
		}
	}
	for _, nv := range vals {
		rec(prefix+nv.Name, nv.Val, 0)
	}
}

func parseSMTValue(s string) (*big.Int, bool) {
	s = strings.TrimSpace(s)
	switch {
	case s == "true":
		return big.NewInt(1), true
	case s == "false":
		return big.NewInt(0), true
	case strings.HasPrefix(s, "#x"):
		v, ok := new(big.Int).SetString(s[2:], 16)
		return v, ok
	case strings.HasPrefix(s, "#b"):
		v, ok := new(big.Int).SetString(s[2:], 2)
		return v, ok
	case strings.HasPrefix(s, "(- "):
		v, ok := new(big.Int).SetString(strings.TrimSuffix(s[3:], ")"), 10)
		if ok {
			v.Neg(v)
		}
		return v, ok
	case strings.HasPrefix(s, "(_ bv"):
		f := strings.Fields(s[5:])
		v, ok := new(big.Int).SetString(f[0], 10)
		return v, ok
	}
	v, ok := new(big.Int).SetString(s, 10)
	return v, ok
}

type Model map[string]*big.Int

// Discharge solves all obligations in parallel.
func Discharge(obls []*Obligation, opts SolveOpts, workers int, wantModels bool) {
	var wg sync.WaitGroup
	ch := make(chan *Obligation)
	// script generation is not thread-safe on a shared TB: generate scripts first, sequentially per Exec
	type job struct {
		o      *Obligation
		script string
		aided  string
		ground string
		small  string
		mq     *modelQuery
	}
	jobs := make([]job, 0, len(obls))
	for _, o := range obls {
		if o.Trivial {
			o.Result = &SolveResult{Status: "unsat", Solver: "simplifier"}
			continue
		}
		tb := o.x.tb
		asserts := append([]*Term(nil), o.Asserts...)
		goal := o.Goal
		if o.Region != nil {
			// known finding: prove the obligation outside the recorded failing region, and (when the finding
			// records what the code does there) the recorded behaviour inside it
			if o.Observed != nil {
				goal = tb.And(tb.Implies(tb.Not(o.Region), goal), tb.Implies(o.Region, o.Observed))
			} else {
				asserts = append(asserts, tb.Not(o.Region))
			}
		}
		asserts = append(asserts, tb.Not(goal))
		var mq *modelQuery
		var gv []*Term
		if wantModels {
			mq = &modelQuery{}
			o.x.modelTerms(o.Inputs, o.x.initMemFor(o), mq, "")
			gv = mq.terms
		}
		small := ""
		if wantModels {
			var extra []*Term
			var walk func(v SVal)
			walk = func(v SVal) {
				switch t := v.(type) {
				case *SliceV:
					extra = append(extra, tb.BVCmp("bvsle", t.Len, tb.BVi(64, 280)), tb.BVCmp("bvsle", t.Cap, tb.BVBin("bvadd", t.Len, tb.BVi(64, 16))))
				case *StructV:
					for _, f := range t.Fields {
						walk(f)
					}
				case *PtrV:
					if os, ok := o.x.entryMem[t.Obj]; ok && !t.Obj.Array && os.Val != nil {
						walk(getPath(os.Val, t.Path))
					}
				}
			}
			for _, in := range o.Inputs {
				walk(in.Val)
			}
			if len(extra) > 0 {
				small = tb.Script(append(append([]*Term(nil), asserts...), extra...), gv, false)
			}
		}
		aided, ground := "", ""
		if len(o.Aid) > 0 {
			aided = tb.Script(append(append([]*Term(nil), asserts...), o.Aid...), gv, false)
			// ground arm: the instances with every remaining quantifier weakened away (only "unsat" means anything)
			var gs []*Term
			for _, a := range asserts {
				if w := tb.WeakenQ(a, 1); !w.IsTrue() {
					gs = append(gs, w)
				}
			}
			for _, a := range o.Aid {
				if w := tb.WeakenQ(a, 1); !w.IsTrue() {
					gs = append(gs, w)
				}
			}
			ground = tb.Script(gs, nil, false)
			if d := os.Getenv("GOVC_DUMPGROUND"); d != "" {
				// diagnostics: the ground script with the goal's quantifier-free conjuncts as get-value terms
				var parts []*Term
				var split func(t *Term)
				split = func(t *Term) {
					switch {
					case t.op == "and":
						for _, a := range t.args {
							split(a)
						}
					case t.op == "=>":
						parts = append(parts, t.args[0])
						split(t.args[1])
					case !t.hasQ:
						parts = append(parts, t)
					}
				}
				split(goal)
				os.MkdirAll(d, 0755)
				var sb strings.Builder
				for i, p := range parts {
					fmt.Fprintf(&sb, "; part %d: %s\n", i, tb.Show(p))
				}
				os.WriteFile(fmt.Sprintf("%s/%s_%d.smt2", d, sanitize(o.Name), len(jobs)), []byte(sb.String()+tb.Script(gs, parts, false)), 0644)
			}
		}
		jobs = append(jobs, job{o, tb.Script(asserts, gv, false), aided, ground, small, mq})
	}
	_ = ch
	jch := make(chan job)
	for w := 0; w < workers; w++ {
		wg.Add(1)
		go func() {
			defer wg.Done()
			for j := range jch {
				r := SolveAided(j.script, j.aided, j.ground, opts)
				if r.Status == "sat" && j.small != "" {
					// prefer a counterexample with small slices (replayable); keep the first answer otherwise
					if r2 := Solve(j.small, opts); r2.Status == "sat" {
						r2.Tried = append(r.Tried, r2.Tried...)
						r2.Seconds += r.Seconds
						r = r2
					}
				}
				j.o.Result = r
				if r.Status == "sat" && j.mq != nil && len(r.Values) == len(j.mq.terms) {
					m := Model{}
					for i, d := range j.mq.descr {
						if v, ok := parseSMTValue(r.Values[i]); ok {
							m[d] = v
						}
					}
					j.o.ModelVals = m
				}
			}
		}()
	}
	for _, j := range jobs {
		jch <- j
	}
	close(jch)
	wg.Wait()
}

func (x *Exec) initMemFor(o *Obligation) map[*Object]*ObjState {
	return x.entryMem
}
