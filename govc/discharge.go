package main

import (
	"time"
	"os"
	"fmt"
	"math/big"
	"strings"
	"sync"
)

// model extraction terms for an obligation: scalars of inputs, slice headers and first cells.
const modelCells = 300

type modelQuery struct {
	terms []*Term
	descr []string
}

func (x *Exec) modelTerms(vals []NamedVal, st map[*Object]*ObjState, mq *modelQuery, prefix string) {
	tb := x.tb
	var rec func(name string, v SVal, depth int)
	rec = func(name string, v SVal, depth int) {
		if depth > 4 {
			return
		}
		switch t := v.(type) {
		case *Term:
			mq.terms = append(mq.terms, t)
			mq.descr = append(mq.descr, name)
		case *StructV:
			s, _ := t.T.Underlying().(interface{ NumFields() int })
			_ = s
			for i, f := range t.Fields {
				fn := fmt.Sprintf("%d", i)
				if ts, ok := structOf(t.T); ok {
					fn = ts.Field(i).Name()
				}
				rec(name+"."+fn, f, depth+1)
			}
		case *SliceV:
			mq.terms = append(mq.terms, t.IsNil, t.Len, t.Cap)
			mq.descr = append(mq.descr, name+"#isnil", name+"#len", name+"#cap")
			if os, ok := st[t.Obj]; ok && t.Obj.Array {
				if c, has := os.Leaves[""]; has {
					for i := 0; i < modelCells; i++ {
						mq.terms = append(mq.terms, x.Select(c, tb.BVBin("bvadd", t.Off, tb.BVi(64, int64(i)))))
						mq.descr = append(mq.descr, fmt.Sprintf("%s#%d", name, i))
					}
				}
			}
		case *PtrV:
			mq.terms = append(mq.terms, t.IsNil)
			mq.descr = append(mq.descr, name+"#isnil")
			if os, ok := st[t.Obj]; ok && !t.Obj.Array {
				rec(name+"^", getPath(os.Val, t.Path), depth+1)
			}
		case *ArrayV:
			if c, ok := t.Leaves[""]; ok {
				for i := int64(0); i < t.T.Len() && i < modelCells; i++ {
					mq.terms = append(mq.terms, x.Select(c, tb.BVi(64, i)))
					mq.descr = append(mq.descr, fmt.Sprintf("%s#%d", name, i))
				}
			}
		case *ArrayRef:
			if os, ok := st[t.Obj]; ok {
				if c, has := os.Leaves[""]; has {
					for i := int64(0); i < t.T.Len() && i < modelCells; i++ {
						mq.terms = append(mq.terms, x.Select(c, tb.BVi(64, i)))
						mq.descr = append(mq.descr, fmt.Sprintf("%s#%d", name, i))
					}
				}
			}
		case *IfaceV:
			mq.terms = append(mq.terms, t.Tag)
			mq.descr = append(mq.descr, name+"#tag")
		case *FuncV:
			mq.terms = append(mq.terms, t.IsNil)
			mq.descr = append(mq.descr, name+"#isnil")
		}
	}
	for _, nv := range vals {
		rec(prefix+nv.Name, nv.Val, 0)
	}
}

func parseSMTValue(s string) (*big.Int, bool) {
	s = strings.TrimSpace(s)
	switch {
	case s == "true":
		return big.NewInt(1), true
	case s == "false":
		return big.NewInt(0), true
	case strings.HasPrefix(s, "#x"):
		v, ok := new(big.Int).SetString(s[2:], 16)
		return v, ok
	case strings.HasPrefix(s, "#b"):
		v, ok := new(big.Int).SetString(s[2:], 2)
		return v, ok
	case strings.HasPrefix(s, "(- "):
		v, ok := new(big.Int).SetString(strings.TrimSuffix(s[3:], ")"), 10)
		if ok {
			v.Neg(v)
		}
		return v, ok
	case strings.HasPrefix(s, "(_ bv"):
		f := strings.Fields(s[5:])
		v, ok := new(big.Int).SetString(f[0], 10)
		return v, ok
	}
	v, ok := new(big.Int).SetString(s, 10)
	return v, ok
}

type Model map[string]*big.Int

// Discharge solves all obligations in parallel.
func Discharge(obls []*Obligation, opts SolveOpts, workers int, wantModels bool) {
	// script generation is not thread-safe on a shared TB: plain scripts are generated first, sequentially; the
	// instantiation aid (expensive) is computed afterwards, only for obligations the first solver stage did not
	// decide, sequentially per Exec and in parallel across Execs
	type job struct {
		o       *Obligation
		script  string
		small   string
		mq      *modelQuery
		asserts []*Term // path condition (incl. region handling), without the negated goal
		goal    *Term
		gv      []*Term
		idx     int
	}
	jobs := make([]*job, 0, len(obls))
	tPhase := time.Now()
	for _, o := range obls {
		if o.Trivial {
			o.Result = &SolveResult{Status: "unsat", Solver: "simplifier"}
			continue
		}
		tb := o.x.tb
		pc := append([]*Term(nil), o.Asserts...)
		goal := o.Goal
		if o.Region != nil {
			// known finding: prove the obligation outside the recorded failing region, and (when the finding
			// records what the code does there) the recorded behaviour inside it
			if o.Observed != nil {
				goal = tb.And(tb.Implies(tb.Not(o.Region), goal), tb.Implies(o.Region, o.Observed))
			} else {
				pc = append(pc, tb.Not(o.Region))
			}
		}
		asserts := append(append([]*Term(nil), pc...), tb.Not(goal))
		var mq *modelQuery
		var gv []*Term
		if wantModels {
			mq = &modelQuery{}
			o.x.modelTerms(o.Inputs, o.x.initMemFor(o), mq, "")
			gv = mq.terms
		}
		small := ""
		if wantModels {
			var extra []*Term
			var walk func(v SVal)
			walk = func(v SVal) {
				switch t := v.(type) {
				case *SliceV:
					extra = append(extra, tb.BVCmp("bvsle", t.Len, tb.BVi(64, 280)), tb.BVCmp("bvsle", t.Cap, tb.BVBin("bvadd", t.Len, tb.BVi(64, 16))))
				case *StructV:
					for _, f := range t.Fields {
						walk(f)
					}
				case *PtrV:
					if os, ok := o.x.entryMem[t.Obj]; ok && !t.Obj.Array && os.Val != nil {
						walk(getPath(os.Val, t.Path))
					}
				}
			}
			for _, in := range o.Inputs {
				walk(in.Val)
			}
			if len(extra) > 0 {
				small = tb.Script(append(append([]*Term(nil), asserts...), extra...), gv, false)
			}
		}
		jobs = append(jobs, &job{o: o, script: tb.Script(asserts, gv, false), small: small, mq: mq, asserts: pc, goal: goal, gv: gv, idx: len(jobs)})
	}
	finish := func(j *job, r *SolveResult) {
		if r.Status == "sat" && j.small != "" {
			// prefer a counterexample with small slices (replayable); keep the first answer otherwise
			if r2 := Solve(j.small, opts); r2.Status == "sat" {
				r2.Tried = append(r.Tried, r2.Tried...)
				r2.Seconds += r.Seconds
				r = r2
			}
		}
		j.o.Result = r
		if r.Status == "sat" && j.mq != nil && len(r.Values) == len(j.mq.terms) {
			m := Model{}
			for i, d := range j.mq.descr {
				if v, ok := parseSMTValue(r.Values[i]); ok {
					m[d] = v
				}
			}
			j.o.ModelVals = m
		}
	}
	if os.Getenv("GOVC_TIMING") != "" {
		fmt.Fprintf(os.Stderr, "TIMING scripts: %.1fs for %d jobs\n", time.Since(tPhase).Seconds(), len(jobs))
		tPhase = time.Now()
	}
	// phase 1: the plain query, z3 5.1, short budget
	var wg sync.WaitGroup
	var mu sync.Mutex
	var hard []*job
	first := map[*job]*SolveResult{}
	jch := make(chan *job)
	for w := 0; w < workers; w++ {
		wg.Add(1)
		go func() {
			defer wg.Done()
			for j := range jch {
				o1 := opts
				for _, a := range j.asserts {
					if a.hasQ {
						o1.FirstBudget = 1 // quantified path condition: the ground arm of phase 2 is the likelier winner
						break
					}
				}
				r := SolveFirst(j.script, o1)
				if r.Status == "unsat" || r.Status == "sat" {
					finish(j, r)
					continue
				}
				mu.Lock()
				hard = append(hard, j)
				first[j] = r
				mu.Unlock()
			}
		}()
	}
	for _, j := range jobs {
		jch <- j
	}
	close(jch)
	wg.Wait()
	if os.Getenv("GOVC_TIMING") != "" {
		fmt.Fprintf(os.Stderr, "TIMING phase1: %.1fs, %d hard\n", time.Since(tPhase).Seconds(), len(hard))
	}
	if len(hard) == 0 {
		return
	}
	// phase 2: instantiation aid, per Exec sequentially (the term builder is not thread-safe), then the full portfolio
	byExec := map[*Exec][]*job{}
	var order []*Exec
	for _, j := range hard {
		if _, ok := byExec[j.o.x]; !ok {
			order = append(order, j.o.x)
		}
		byExec[j.o.x] = append(byExec[j.o.x], j)
	}
	type ready struct {
		j              *job
		aided, ground string
	}
	rch := make(chan ready, 64)
	var pwg sync.WaitGroup
	sem := make(chan struct{}, workers)
	for _, x := range order {
		pwg.Add(1)
		go func(x *Exec) {
			defer pwg.Done()
			sem <- struct{}{}
			defer func() { <-sem }()
			tb := x.tb
			for _, j := range byExec[x] {
				aided, ground := "", ""
				j.o.Aid = x.instantiationAid(j.asserts, j.goal)
				if len(j.o.Aid) > 0 {
					full := append(append([]*Term(nil), j.asserts...), tb.Not(j.goal))
					aided = tb.Script(append(append([]*Term(nil), full...), j.o.Aid...), j.gv, false)
					// ground arm: the instances with every remaining quantifier weakened away (only "unsat" means anything)
					var gs []*Term
					for _, a := range full {
						if w := tb.WeakenQ(a, 1); !w.IsTrue() {
							gs = append(gs, w)
						}
					}
					for _, a := range j.o.Aid {
						if w := tb.WeakenQ(a, 1); !w.IsTrue() {
							gs = append(gs, w)
						}
					}
					ground = tb.Script(gs, nil, false)
					if d := os.Getenv("GOVC_DUMPGROUND"); d != "" {
						// diagnostics: the ground script with the goal's quantifier-free conjuncts as get-value terms
						var parts []*Term
						var split func(t *Term)
						split = func(t *Term) {
							switch {
							case t.op == "and":
								for _, a := range t.args {
									split(a)
								}
							case t.op == "=>":
								parts = append(parts, t.args[0])
								split(t.args[1])
							case !t.hasQ:
								parts = append(parts, t)
							}
						}
						split(j.goal)
						os.MkdirAll(d, 0755)
						var sb strings.Builder
						for i, p := range parts {
							fmt.Fprintf(&sb, "; part %d: %s\n", i, tb.Show(p))
						}
						os.WriteFile(fmt.Sprintf("%s/%s_%d.smt2", d, sanitize(j.o.Name), j.idx), []byte(sb.String()+tb.Script(gs, parts, false)), 0644)
					}
				}
				rch <- ready{j, aided, ground}
			}
		}(x)
	}
	go func() { pwg.Wait(); close(rch) }()
	var swg sync.WaitGroup
	for w := 0; w < workers; w++ {
		swg.Add(1)
		go func() {
			defer swg.Done()
			for rd := range rch {
				o2 := opts
				o2.SkipPlainFirst = true
				r := SolveAided(rd.j.script, rd.aided, rd.ground, o2)
				mu.Lock()
				f := first[rd.j]
				mu.Unlock()
				if f != nil {
					r.Tried = append(append([]string(nil), f.Tried...), r.Tried...)
					r.Seconds += f.Seconds
				}
				finish(rd.j, r)
			}
		}()
	}
	swg.Wait()
}

func (x *Exec) initMemFor(o *Obligation) map[*Object]*ObjState {
	return x.entryMem
}
