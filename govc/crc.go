package main

// CRC-16/MODBUS spec function as an uninterpreted fold with generated lemma instances.
//
//   crc16(S, 0)   = 0xFFFF
//   crc16(S, n+1) = step(crc16(S, n), S[n])            step = 8 x bit1 after xor with the byte
//
// S is a "snapshot": (content tree, offset) of a byte object at the moment the term is built.
// The UF takes (snapshot id, n).  For every pair of snapshots over the same object the engine
// emits an instance of the frame lemma (proved once, by induction, as obligation crc.frame):
//   (exists k<n. S1[k] != S2[k])  or  crc16(S1,n) == crc16(S2,n)        -- k skolemised
// and, on request (loop invariants), unfolding instances of the defining equations.

import "fmt"

type crcSnap struct {
	id   int
	obj  *Object
	c    *Content
	off  *Term
	lens []*Term
}

func (x *Exec) crcFun() *FunDecl {
	return x.tb.DeclareFun("crc16", []Sort{SInt, BV(64)}, BV(16))
}

// bit1: one step of the reflected LFSR with polynomial 0xA001.
func (x *Exec) crcBit1(c *Term) *Term {
	tb := x.tb
	sh := tb.BVBin("bvlshr", c, tb.BVi(16, 1))
	lsb := tb.Eq(tb.Extract(0, 0, c), tb.BVi(1, 1))
	return tb.Ite(lsb, tb.BVBin("bvxor", sh, tb.BVi(16, 0xA001)), sh)
}

func (x *Exec) crcStep(c, b *Term) *Term {
	tb := x.tb
	v := tb.BVBin("bvxor", c, tb.ZExt(16, b))
	for i := 0; i < 8; i++ {
		v = x.crcBit1(v)
	}
	return v
}

func (x *Exec) crcSnapFor(st *State, s *SliceV) *crcSnap {
	c := x.objState(st, s.Obj).Leaves[""]
	for _, sn := range x.crcSnaps {
		if sn.c == c && sn.off == s.Off {
			return sn
		}
	}
	sn := &crcSnap{id: len(x.crcSnaps) + 1, obj: s.Obj, c: c, off: s.Off}
	x.crcSnaps = append(x.crcSnaps, sn)
	return sn
}

// crcTerm returns crc16(snapshot(s), n) and adds lemma instances to the state.
func (x *Exec) crcTerm(st *State, s *SliceV, n *Term) *Term {
	tb := x.tb
	if s.Obj.Dummy {
		// empty input: crc of nothing
		return tb.BVi(16, 0xFFFF)
	}
	sn := x.crcSnapFor(st, s)
	f := x.crcFun()
	t := tb.App(f, tb.Intc(int64(sn.id)), n)
	known := false
	for _, l := range sn.lens {
		if l == n {
			known = true
		}
	}
	if !known {
		sn.lens = append(sn.lens, n)
	}
	// base case and unfolding at n: crc16(S,0)=0xFFFF ; n>0 ==> crc16(S,n) = step(crc16(S,n-1), S[n-1])
	st.Assume(tb.Eq(tb.App(f, tb.Intc(int64(sn.id)), tb.BVi(64, 0)), tb.BVi(16, 0xFFFF)))
	nm1 := tb.BVBin("bvsub", n, tb.BVi(64, 1))
	unfold := tb.Implies(tb.BVCmp("bvslt", tb.BVi(64, 0), n),
		tb.Eq(t, x.crcStep(tb.App(f, tb.Intc(int64(sn.id)), nm1), x.Select(sn.c, tb.BVBin("bvadd", sn.off, nm1)))))
	st.Assume(unfold)
	// frame lemma instances against every other snapshot (same or different object)
	for _, o := range x.crcSnaps {
		if o == sn {
			continue
		}
		lens := append([]*Term{n}, o.lens...)
		seen := map[int]bool{}
		for _, l := range lens {
			if seen[l.id] {
				continue
			}
			seen[l.id] = true
			// one instance per (snapshot pair, length) and path
			mark := fmt.Sprintf("crcinst:%d:%d:%d", sn.id, o.id, l.id)
			if _, done := st.ghost[mark]; done {
				continue
			}
			st.ghost[mark] = tb.True()
			k := tb.Fresh(fmt.Sprintf("crc.k%d_%d", sn.id, o.id), BV(64))
			diff := tb.And(tb.BVCmp("bvsle", tb.BVi(64, 0), k), tb.BVCmp("bvslt", k, l),
				tb.Not(tb.Eq(x.Select(sn.c, tb.BVBin("bvadd", sn.off, k)), x.Select(o.c, tb.BVBin("bvadd", o.off, k)))))
			same := tb.Eq(tb.App(f, tb.Intc(int64(sn.id)), l), tb.App(f, tb.Intc(int64(o.id)), l))
			st.Assume(tb.Or(diff, same))
		}
	}
	return t
}

// crcMetaObligations: the frame lemma proved by induction over n for two arbitrary arrays, plus
// the table-free sanity facts tying the spec to published vectors.
func (x *Exec) crcMetaObligations() {
	tb := x.tb
	st := &State{mem: map[*Object]*ObjState{}, ghost: map[string]SVal{}, cuts: map[string]bool{}}
	fa := tb.DeclareFun("crcmeta.A", []Sort{BV(64)}, BV(8))
	fb := tb.DeclareFun("crcmeta.B", []Sort{BV(64)}, BV(8))
	ca := tb.DeclareFun("crcmeta.crcA", []Sort{BV(64)}, BV(16))
	cb := tb.DeclareFun("crcmeta.crcB", []Sort{BV(64)}, BV(16))
	n := tb.Fresh("crcmeta.n", BV(64))
	// base: crcA(0) = crcB(0) by definition
	base := tb.Implies(tb.And(tb.Eq(tb.App(ca, tb.BVi(64, 0)), tb.BVi(16, 0xFFFF)), tb.Eq(tb.App(cb, tb.BVi(64, 0)), tb.BVi(16, 0xFFFF))),
		tb.Eq(tb.App(ca, tb.BVi(64, 0)), tb.App(cb, tb.BVi(64, 0))))
	x.addObl(st, "packet.crc16.frame/base", "lemma", base, 0, []string{"C03"})
	// step: IH: (forall k<n. A[k]=B[k]) ==> crcA(n)=crcB(n).  Show for n+1 given defs at n.
	n1 := tb.BVBin("bvadd", n, tb.BVi(64, 1))
	defA := tb.Eq(tb.App(ca, n1), x.crcStep(tb.App(ca, n), tb.App(fa, n)))
	defB := tb.Eq(tb.App(cb, n1), x.crcStep(tb.App(cb, n), tb.App(fb, n)))
	kb := tb.BoundVar("k", BV(64))
	agreeN1 := tb.Forall(kb, tb.Implies(tb.And(tb.BVCmp("bvsle", tb.BVi(64, 0), kb), tb.BVCmp("bvslt", kb, n1)), tb.Eq(tb.App(fa, kb), tb.App(fb, kb))))
	// IH in skolem form is not needed: agreement on [0,n+1) implies agreement on [0,n), so IH gives crcA(n)=crcB(n)
	ih := tb.Eq(tb.App(ca, n), tb.App(cb, n))
	st2 := st.Clone()
	st2.Assume(tb.BVCmp("bvsle", tb.BVi(64, 0), n))
	st2.Assume(tb.BVCmp("bvslt", n, tb.BVi(64, 1<<40)))
	st2.Assume(defA)
	st2.Assume(defB)
	st2.Assume(agreeN1)
	st2.Assume(ih)
	x.addObl(st2, "packet.crc16.frame/step", "lemma", tb.Eq(tb.App(ca, n1), tb.App(cb, n1)), 0, []string{"C03"})
	// published vectors: "123456789" -> 0x4B37 ; 01 04 02 FF FF -> 0x80B8
	vec := func(bytes []byte, want int64, name string) {
		c := tb.BVi(16, 0xFFFF)
		for _, b := range bytes {
			c = x.crcStep(c, tb.BVi(8, int64(b)))
		}
		x.addObl(st, "packet.crc16.vector/"+name, "lemma", tb.Eq(c, tb.BVi(16, want)), 0, []string{"C03"})
	}
	vec([]byte("123456789"), 0x4B37, "check-123456789")
	vec([]byte{0x01, 0x04, 0x02, 0xFF, 0xFF}, 0x80B8, "frame-0104")
}
