package main

// Rename recovery.  Loop invariants and loop-level clauses name source-level locals.  A behaviour-preserving rename
// of such a local would make the contract inapplicable - an alarm on code where the property holds.  To avoid that, a
// snapshot of the parameters, free variables and locals (name, type, declaration order) of every function under
// contract is kept in /verif/contracts/locals.json (written by `govc snaplocals` on the tree the contracts were written
// against).  When a name used by a contract is not declared in the function any more, and the function declares a name
// the snapshot does not know, of the same type, the contract name is mapped to it.  The mapping only says which variable
// a contract identifier denotes; every obligation is then generated and discharged as usual, so a wrong guess can only
// make a proof fail, never pass.

import (
	"encoding/json"
	"fmt"
	"go/token"
	"go/types"
	"os"
	"path/filepath"
	"sort"

	"golang.org/x/tools/go/ssa"
)

type NT struct {
	Name string `json:"n"`
	Type string `json:"t"`
}

type LocalSnap struct {
	Params []NT `json:"params,omitempty"`
	Free   []NT `json:"free,omitempty"`
	Locals []NT `json:"locals,omitempty"`
}

func typeStr(t types.Type) string {
	return types.TypeString(t, func(p *types.Package) string { return p.Name() })
}

func collectLocals(fn *ssa.Function) LocalSnap {
	var s LocalSnap
	for _, p := range fn.Params {
		s.Params = append(s.Params, NT{p.Name(), typeStr(p.Type())})
	}
	for _, f := range fn.FreeVars {
		s.Free = append(s.Free, NT{f.Name(), typeStr(f.Type())})
	}
	type ent struct {
		nt  NT
		pos token.Pos
	}
	seen := map[NT]token.Pos{}
	isParam := map[string]bool{}
	for _, p := range fn.Params {
		isParam[p.Name()] = true
	}
	add := func(name string, t types.Type, pos token.Pos) {
		if name == "" || name == "_" {
			return
		}
		nt := NT{name, typeStr(t)}
		if old, ok := seen[nt]; !ok || pos < old {
			seen[nt] = pos
		}
	}
	for _, b := range fn.Blocks {
		for _, in := range b.Instrs {
			switch v := in.(type) {
			case *ssa.DebugRef:
				if ov, ok := v.Object().(*types.Var); ok && !ov.IsField() && ov.Pkg() != nil && ov.Parent() != ov.Pkg().Scope() {
					if isParam[ov.Name()] {
						continue
					}
					add(ov.Name(), ov.Type(), ov.Pos())
				}
			case *ssa.Alloc:
				if v.Comment != "" && !isParam[v.Comment] && token.IsIdentifier(v.Comment) {
					add(v.Comment, v.Type().(*types.Pointer).Elem(), v.Pos())
				}
			}
		}
	}
	var es []ent
	for nt, pos := range seen {
		es = append(es, ent{nt, pos})
	}
	sort.Slice(es, func(i, j int) bool {
		if es[i].pos != es[j].pos {
			return es[i].pos < es[j].pos
		}
		return es[i].nt.Name < es[j].nt.Name
	})
	for _, e := range es {
		s.Locals = append(s.Locals, e.nt)
	}
	return s
}

// inferRenames maps names of the snapshot that are no longer declared to new names of the same type.
func inferRenames(old, now LocalSnap) map[string]string {
	m := map[string]string{}
	pos := func(o, n []NT) {
		if len(o) != len(n) {
			return
		}
		for i := range o {
			if o[i].Name != n[i].Name && o[i].Type == n[i].Type && o[i].Name != "_" && n[i].Name != "_" {
				m[o[i].Name] = n[i].Name
			}
		}
	}
	pos(old.Params, now.Params)
	pos(old.Free, now.Free)
	oldNames, nowNames := map[string]bool{}, map[string]bool{}
	for _, l := range [][]NT{old.Params, old.Free, old.Locals} {
		for _, e := range l {
			oldNames[e.Name] = true
		}
	}
	for _, l := range [][]NT{now.Params, now.Free, now.Locals} {
		for _, e := range l {
			nowNames[e.Name] = true
		}
	}
	missing, added := map[string][]string{}, map[string][]string{}
	for _, e := range old.Locals {
		if !nowNames[e.Name] {
			missing[e.Type] = append(missing[e.Type], e.Name)
		}
	}
	for _, e := range now.Locals {
		if !oldNames[e.Name] {
			added[e.Type] = append(added[e.Type], e.Name)
		}
	}
	for t, ms := range missing {
		as := added[t]
		if len(as) != len(ms) {
			continue
		}
		for i := range ms {
			if _, has := m[ms[i]]; !has {
				m[ms[i]] = as[i]
			}
		}
	}
	return m
}

func (p *Program) loadLocalSnaps() {
	p.LocalSnaps = map[string]LocalSnap{}
	b, err := os.ReadFile(filepath.Join(p.VerifDir, "contracts", "locals.json"))
	if err != nil {
		return
	}
	_ = json.Unmarshal(b, &p.LocalSnaps)
}

// renamesFor returns the inferred rename map of fn (contract name -> current source name); cached.
func (p *Program) renamesFor(fn *ssa.Function) map[string]string {
	p.renMu.Lock()
	defer p.renMu.Unlock()
	if p.renCache == nil {
		p.renCache = map[*ssa.Function]map[string]string{}
	}
	if m, ok := p.renCache[fn]; ok {
		return m
	}
	var m map[string]string
	if old, ok := p.LocalSnaps[p.FuncKey(fn)]; ok {
		m = inferRenames(old, collectLocals(fn))
		if len(m) > 0 {
			var ks []string
			for k := range m {
				ks = append(ks, k)
			}
			sort.Strings(ks)
			for _, k := range ks {
				p.RenameNotes = append(p.RenameNotes, fmt.Sprintf("%s: contract name %q denotes renamed variable %q", p.FuncKey(fn), k, m[k]))
			}
		}
	}
	p.renCache[fn] = m
	return m
}

func cmdSnapLocals(args []string) {
	repo := "/repo"
	if len(args) > 0 {
		repo = args[0]
	}
	prog, err := LoadProgram(repo, "/verif")
	if err != nil {
		fmt.Fprintln(os.Stderr, err)
		os.Exit(2)
	}
	out := map[string]LocalSnap{}
	for k := range prog.Contracts {
		fn := prog.Funcs[k]
		if fn == nil || fn.Blocks == nil {
			continue
		}
		if _, isLemma := prog.LemmaFiles[prog.SSA.Fset.Position(fn.Pos()).Filename]; isLemma {
			continue
		}
		out[k] = collectLocals(fn)
		// closures defined inside are snapshotted too (their contracts are keyed fn$N)
	}
	b, _ := json.MarshalIndent(out, "", " ")
	if err := os.WriteFile("/verif/contracts/locals.json", append(b, '\n'), 0o644); err != nil {
		fmt.Fprintln(os.Stderr, err)
		os.Exit(2)
	}
	fmt.Printf("%d functions\n", len(out))
}
