package modbus

// BOUNDED stand-in (never counted as proved): run-time check of the assumed contract of groupForSingleConnection and of
// the whole-pipeline conjuncts of C05/C06 that the deductive contracts do not carry ("every field exactly once",
// "window ends where its furthest field ends"), on the real functions, over an exhaustively enumerated bounded domain.
// Injected with `go test -overlay`; never written into the repository.

import (
	"encoding/json"
	"fmt"
	"math/rand"
	"os"
	"sort"
	"strconv"
	"testing"

	"github.com/aldas/go-modbus-client/packet"
)

type zzTarget struct {
	server string
	unit   uint8
}

// targets whose naive concatenations collide ("a:50"+"21" == "a:502"+"1", "a_1"+"_1" ...)
var zzTargets = []zzTarget{{"a:50", 21}, {"a:502", 1}, {"a:50", 2}, {"a_1:5", 1}, {"a", 15}, {"a_1", 5}}

func zzPool(thorough bool) []Field {
	var pool []Field
	regAddrs := []uint16{0, 121, 124, 125, 65535}
	coilAddrs := []uint16{0, 1999, 2000}
	targets := zzTargets[:4]
	if thorough {
		regAddrs = append(regAddrs, 1, 122, 126, 65532)
		coilAddrs = append(coilAddrs, 1, 2001, 65535)
		targets = zzTargets
	}
	for _, t := range targets {
		for _, a := range regAddrs {
			pool = append(pool,
				Field{ServerAddress: t.server, UnitID: t.unit, Address: a, Type: FieldTypeUint16},
				Field{ServerAddress: t.server, UnitID: t.unit, Address: a, Type: FieldTypeInt64, ByteOrder: packet.LittleEndianLowWordFirst},
				Field{ServerAddress: t.server, UnitID: t.unit, Address: a, Type: FieldTypeString, Length: 3},
				Field{ServerAddress: t.server, UnitID: t.unit, Address: a, Type: FieldTypeBit, Bit: 3},
			)
		}
		pool = append(pool, Field{ServerAddress: t.server, UnitID: t.unit, Address: 7, Type: FieldTypeString, Length: 255})
		for _, a := range coilAddrs {
			pool = append(pool, Field{ServerAddress: t.server, UnitID: t.unit, Address: a, Type: FieldTypeCoil})
		}
	}
	pool = append(pool,
		Field{ServerAddress: "a:50", UnitID: 1, Address: 1}, // type not set
		Field{ServerAddress: "a:50", UnitID: 1, Address: 1, Type: FieldTypeBit, Bit: 16},
		Field{ServerAddress: "", UnitID: 1, Address: 1, Type: FieldTypeUint16},
	)
	return pool
}

func zzRegs(f Field) int {
	switch f.Type {
	case FieldTypeFloat64, FieldTypeInt64, FieldTypeUint64:
		return 4
	case FieldTypeFloat32, FieldTypeInt32, FieldTypeUint32:
		return 2
	case FieldTypeString:
		return (int(f.Length) + 1) / 2
	}
	return 1
}

func zzValid(f Field) bool {
	return f.ServerAddress != "" && f.Type >= 1 && f.Type <= 14 && f.Bit <= 15 && !(f.Type == FieldTypeString && f.Length == 0)
}

type zzKey struct {
	server string
	unit   uint8
}

func zzFieldKey(f Field) string { return fmt.Sprintf("%#v", f) }

// zzCheckGroups: the assumed contract of groupForSingleConnection, plus coverage.
func zzCheckGroups(fields []Field, onlyCoils bool) string {
	groups, err := groupForSingleConnection(fields, onlyCoils)
	allValid := true
	for _, f := range fields {
		if !zzValid(f) {
			allValid = false
		}
	}
	if (err == nil) != allValid {
		return fmt.Sprintf("err == nil is %v but all fields valid is %v", err == nil, allValid)
	}
	if err != nil {
		if len(groups) != 0 {
			return "groups returned together with an error"
		}
		return ""
	}
	want := map[string]int{}
	for _, f := range fields {
		if (f.Type == FieldTypeCoil) == onlyCoils {
			want[zzFieldKey(f)]++
		}
	}
	got := map[string]int{}
	seenTarget := map[zzKey]bool{}
	for _, g := range groups {
		if g.isForCoils != onlyCoils {
			return "group of the other kind"
		}
		if len(g.slots) == 0 {
			return "empty group"
		}
		k := zzKey{g.serverAddress, g.unitID}
		if seenTarget[k] {
			return "two groups for one target"
		}
		seenTarget[k] = true
		addrs := map[uint16]bool{}
		for _, s := range g.slots {
			if addrs[s.address] {
				return "two slots with one address"
			}
			addrs[s.address] = true
			if len(s.fields) == 0 || s.size < 1 {
				return "empty slot"
			}
			widest := 0
			for _, f := range s.fields {
				if f.Address != s.address || f.ServerAddress != g.serverAddress || f.UnitID != g.unitID || (f.Type == FieldTypeCoil) != g.isForCoils {
					return fmt.Sprintf("field %v in a slot/group that is not its own (group %q unit %d slot %d)", f, g.serverAddress, g.unitID, s.address)
				}
				if zzRegs(f) > widest {
					widest = zzRegs(f)
				}
				got[zzFieldKey(f)]++
			}
			if int(s.size) != widest {
				return "slot size is not the width of its widest field"
			}
		}
	}
	for k, n := range want {
		if got[k] != n {
			return fmt.Sprintf("field %s: %d in, %d out", k, n, got[k])
		}
	}
	for k, n := range got {
		if want[k] != n {
			return fmt.Sprintf("field %s: %d in, %d out", k, want[k], n)
		}
	}
	return ""
}

func zzPacket(r BuilderRequest) (unit uint8, start, qty uint16, ok bool) {
	switch p := r.Request.(type) {
	case *packet.ReadCoilsRequestTCP:
		return p.UnitID, p.StartAddress, p.Quantity, true
	case *packet.ReadCoilsRequestRTU:
		return p.UnitID, p.StartAddress, p.Quantity, true
	case *packet.ReadDiscreteInputsRequestTCP:
		return p.UnitID, p.StartAddress, p.Quantity, true
	case *packet.ReadDiscreteInputsRequestRTU:
		return p.UnitID, p.StartAddress, p.Quantity, true
	case *packet.ReadHoldingRegistersRequestTCP:
		return p.UnitID, p.StartAddress, p.Quantity, true
	case *packet.ReadHoldingRegistersRequestRTU:
		return p.UnitID, p.StartAddress, p.Quantity, true
	case *packet.ReadInputRegistersRequestTCP:
		return p.UnitID, p.StartAddress, p.Quantity, true
	case *packet.ReadInputRegistersRequestRTU:
		return p.UnitID, p.StartAddress, p.Quantity, true
	}
	return 0, 0, 0, false
}

// zzCheckSplit: the statement of C06 on split (all conjuncts), plus for register requests the C05 composition on a
// device memory image: every field decodes to what the memory holds at its own address.
func zzCheckSplit(fields []Field, ft splitToFuncType, mem func(server string, unit uint8, reg uint16) uint16) string {
	coils := ft <= splitToFC2RTU
	limit := 125
	if coils {
		limit = 2000
	}
	reqs, err := split(fields, ft)
	allValid, tooWide := true, false
	for _, f := range fields {
		if !zzValid(f) {
			allValid = false
		} else if (f.Type == FieldTypeCoil) == coils && zzRegs(f) > limit {
			tooWide = true
		}
	}
	if !allValid {
		if err == nil {
			return "invalid field definition accepted"
		}
		return ""
	}
	if tooWide {
		if err == nil {
			return "field wider than a request accepted"
		}
		return ""
	}
	if err != nil {
		return "error for valid fields: " + err.Error()
	}
	want := map[string]int{}
	type span struct{ lo, hi int }
	spans := map[zzKey]*span{}
	for _, f := range fields {
		if (f.Type == FieldTypeCoil) != coils {
			continue
		}
		want[zzFieldKey(f)]++
		k := zzKey{f.ServerAddress, f.UnitID}
		lo, hi := int(f.Address), int(f.Address)+zzRegs(f)
		if s := spans[k]; s == nil {
			spans[k] = &span{lo, hi}
		} else {
			if lo < s.lo {
				s.lo = lo
			}
			if hi > s.hi {
				s.hi = hi
			}
		}
	}
	got := map[string]int{}
	perTarget := map[zzKey]int{}
	for _, r := range reqs {
		unit, start, qty, ok := zzPacket(r)
		if !ok {
			return "request packet of an unexpected type"
		}
		if unit != r.UnitID || start != r.StartAddress {
			return "packet and descriptor disagree"
		}
		if qty < 1 || int(qty) > limit {
			return fmt.Sprintf("quantity %d outside 1..%d", qty, limit)
		}
		if len(r.Fields) == 0 {
			return "empty request"
		}
		perTarget[zzKey{r.ServerAddress, r.UnitID}]++
		lo, hi := 1<<30, -1
		for _, f := range r.Fields {
			if f.ServerAddress != r.ServerAddress || f.UnitID != r.UnitID {
				return fmt.Sprintf("field %v in a request for %q unit %d", f, r.ServerAddress, r.UnitID)
			}
			if (f.Type == FieldTypeCoil) != coils {
				return "field of the other kind"
			}
			a, e := int(f.Address), int(f.Address)+zzRegs(f)
			if a < int(start) || e > int(start)+int(qty) {
				return fmt.Sprintf("field %v outside the window [%d,%d)", f, start, int(start)+int(qty))
			}
			if a < lo {
				lo = a
			}
			if e > hi {
				hi = e
			}
			got[zzFieldKey(f)]++
		}
		if lo != int(start) || hi != int(start)+int(qty) {
			return fmt.Sprintf("window [%d,%d) is not tight: fields span [%d,%d)", start, int(start)+int(qty), lo, hi)
		}
		if !coils && mem != nil {
			// C05: a device answering with its memory; extraction must give the memory content at the field's own address
			data := make([]byte, 2*int(qty))
			for i := 0; i < int(qty); i++ {
				v := mem(r.ServerAddress, r.UnitID, start+uint16(i))
				data[2*i], data[2*i+1] = byte(v>>8), byte(v)
			}
			var resp packet.Response
			if ft == splitToFC3TCP || ft == splitToFC3RTU {
				resp = &packet.ReadHoldingRegistersResponseTCP{ReadHoldingRegistersResponse: packet.ReadHoldingRegistersResponse{UnitID: unit, RegisterByteLen: uint8(len(data)), Data: data}}
			} else {
				resp = &packet.ReadInputRegistersResponseTCP{ReadInputRegistersResponse: packet.ReadInputRegistersResponse{UnitID: unit, RegisterByteLen: uint8(len(data)), Data: data}}
			}
			vals, err := r.ExtractFields(resp, false)
			if err != nil || len(vals) != len(r.Fields) {
				return fmt.Sprintf("extraction failed: %v", err)
			}
			for i, fv := range vals {
				f := r.Fields[i]
				if fv.Field != f {
					return "value attached to another definition"
				}
				n := zzRegs(f)
				direct := make([]byte, 2*n)
				for j := 0; j < n; j++ {
					v := mem(f.ServerAddress, f.UnitID, f.Address+uint16(j))
					direct[2*j], direct[2*j+1] = byte(v>>8), byte(v)
				}
				regs, _ := packet.NewRegisters(direct, f.Address)
				wantV, werr := f.ExtractFrom(regs)
				if werr != nil || fmt.Sprint(wantV) != fmt.Sprint(fv.Value) {
					return fmt.Sprintf("field %v: extracted %v, device memory holds %v", f, fv.Value, wantV)
				}
			}
		}
	}
	for k, n := range want {
		if got[k] != n {
			return fmt.Sprintf("field %s: %d requested, %d in the requests", k, n, got[k])
		}
	}
	for k, n := range got {
		if want[k] != n {
			return fmt.Sprintf("field %s: %d requested, %d in the requests", k, want[k], n)
		}
	}
	for k, s := range spans {
		if s.hi-s.lo <= limit && perTarget[k] != 1 {
			return fmt.Sprintf("fields of %q unit %d span %d <= %d but are split into %d requests", k.server, k.unit, s.hi-s.lo, limit, perTarget[k])
		}
	}
	return ""
}

func zzMem(server string, unit uint8, reg uint16) uint16 {
	h := uint32(2166136261)
	for _, c := range []byte(server) {
		h = (h ^ uint32(c)) * 16777619
	}
	h = (h ^ uint32(unit)) * 16777619
	h = (h ^ uint32(reg)) * 16777619
	h = (h ^ uint32(reg>>8)) * 16777619
	return uint16(h>>7) | 0x0101
}

type zzReport struct {
	Name        string   `json:"name"`
	Bound       string   `json:"bound"`
	Cases       int      `json:"cases"`
	Nontrivial  int      `json:"nontrivial"`
	Exhaustive  bool     `json:"exhaustive"`
	Violation   string   `json:"violation,omitempty"`
	FailingCase []Field  `json:"failing_case,omitempty"`
	FuncType    int      `json:"func_type"`
	Samples     [][]Field `json:"samples,omitempty"`
}

func TestZZBoundedBuilder(t *testing.T) {
	thorough := os.Getenv("VERIF_TIER") == "thorough"
	seed, _ := strconv.ParseInt(os.Getenv("VERIF_SEED"), 10, 64)
	pool := zzPool(thorough)
	maxExh := 2
	randomN, randomLen := 150000, 4
	if thorough {
		randomN, randomLen = 1500000, 6
	}
	fts := []splitToFuncType{splitToFC1TCP, splitToFC3TCP, splitToFC4RTU, splitToFC2RTU}
	rep := zzReport{Name: "groupForSingleConnection+split", Exhaustive: false,
		Bound: fmt.Sprintf("all lists of 0..%d fields over a pool of %d definitions (exhaustive), then %d random lists of up to %d fields (seed %d); 4 of the 8 split targets; one device memory image", maxExh, len(pool), randomN, randomLen, seed)}
	fail := func(fields []Field, ft splitToFuncType, msg string) {
		rep.Violation, rep.FailingCase, rep.FuncType = msg, fields, int(ft)
		b, _ := json.Marshal(rep)
		fmt.Println("BOUNDED " + string(b))
		t.Fatalf("bounded check failed: %s on %v (funcType %d)", msg, fields, ft)
	}
	run := func(fields []Field) {
		rep.Cases++
		kinds := map[zzKey]bool{}
		for _, f := range fields {
			kinds[zzKey{f.ServerAddress, f.UnitID}] = true
		}
		if len(fields) >= 2 {
			rep.Nontrivial++
		}
		for _, oc := range []bool{false, true} {
			if m := zzCheckGroups(fields, oc); m != "" {
				fail(fields, 0, "groupForSingleConnection: "+m)
			}
		}
		for _, ft := range fts {
			if m := zzCheckSplit(fields, ft, zzMem); m != "" {
				fail(fields, ft, "split: "+m)
			}
		}
	}
	var rec func(prefix []Field, depth int)
	rec = func(prefix []Field, depth int) {
		run(prefix)
		if depth == maxExh {
			return
		}
		for _, f := range pool {
			rec(append(append([]Field(nil), prefix...), f), depth+1)
		}
	}
	rec(nil, 0)
	rng := rand.New(rand.NewSource(seed + 1))
	for i := 0; i < randomN; i++ {
		n := 3 + rng.Intn(randomLen-2)
		fs := make([]Field, n)
		// biased towards few targets so that fields meet in one group
		t0 := zzTargets[rng.Intn(len(zzTargets))]
		for j := range fs {
			fs[j] = pool[rng.Intn(len(pool))]
			if rng.Intn(3) != 0 && fs[j].ServerAddress != "" {
				fs[j].ServerAddress, fs[j].UnitID = t0.server, t0.unit
			}
		}
		if i < 3 {
			rep.Samples = append(rep.Samples, fs)
		}
		run(fs)
	}
	sort.Slice(rep.Samples, func(i, j int) bool { return len(rep.Samples[i]) < len(rep.Samples[j]) })
	b, _ := json.Marshal(rep)
	fmt.Println("BOUNDED " + string(b))
}
