"""Response side of the contract generator (imported by gen_contracts.py)."""

OUT = []
def emit(*lines):
    for l in lines:
        OUT.append(l)

def block(sig, clauses):
    emit("//@ func " + sig)
    for c in clauses:
        emit("//@   " + c)
    emit("")

# name, fc, kind, length field (for byte-count formats)
RESP = [
    ("ReadCoils", 1, "bytes", "CoilsByteLength", 1),
    ("ReadDiscreteInputs", 2, "bytes", "InputsByteLength", 1),
    ("ReadHoldingRegisters", 3, "regs", "RegisterByteLen", 2),
    ("ReadInputRegisters", 4, "regs", "RegisterByteLen", 2),
    ("WriteSingleCoil", 5, "fc5", None, 0),
    ("WriteSingleRegister", 6, "fc6", None, 0),
    ("WriteMultipleCoils", 15, "fc15", None, 0),
    ("WriteMultipleRegisters", 16, "fc16", None, 0),
    ("ReadServerID", 17, "fc17", None, 0),
    ("ReadWriteMultipleRegisters", 23, "regs", "RegisterByteLen", 2),
]

def pdu_resp(kind, fc, d, o, r, lf):
    if kind == "bytes":
        return f"pduBytes({d}, {o}, {r}.UnitID, {fc}, {r}.Data)"
    if kind == "regs":
        return f"pduBytes({d}, {o}, {r}.UnitID, {fc}, {r}.Data)"
    if kind == "fc5":
        return f"pduFC5({d}, {o}, {r}.UnitID, {r}.StartAddress, {r}.CoilState)"
    if kind == "fc6":
        return f"pduFC6({d}, {o}, {r}.UnitID, {r}.Address, {r}.Data[0], {r}.Data[1])"
    if kind == "fc15":
        return f"pduRead({d}, {o}, {r}.UnitID, 15, {r}.StartAddress, {r}.CoilCount)"
    if kind == "fc16":
        return f"pduRead({d}, {o}, {r}.UnitID, 16, {r}.StartAddress, {r}.RegisterCount)"
    if kind == "fc17":
        return f"pduFC17Resp({d}, {o}, {r}.UnitID, {r}.ServerID, {r}.Status, {r}.AdditionalData)"

def pdu_len(kind, r):
    if kind in ("bytes", "regs"):
        return f"3+len({r}.Data)"
    if kind == "fc17":
        return f"4+len({r}.ServerID)+len({r}.AdditionalData)"
    return "6"

def enc_requires(kind, r, lf):
    if kind == "bytes":
        return [f"requires len({r}.Data) <= 255"]
    if kind == "regs":
        return [f"requires int({r}.{lf}) == len({r}.Data)"]
    if kind == "fc17":
        return [f"requires len({r}.ServerID) <= 255 && len({r}.ServerID) + len({r}.AdditionalData) <= 60000"]
    return []

def resp_wf(kind, fc, d, o, fr, minbc):
    """well-formed response frame of this function (the frames a conforming device sends)"""
    t = 0 if fr == "TCP" else 2
    pre = ""
    if fr == "TCP":
        pre = f"hdrWF({d}) && "
    if kind in ("bytes", "regs"):
        return f"{pre}len({d}) == {o+3+t} + int({d}[{o+2}]) && int({d}[{o+2}]) >= {minbc} && {d}[{o+1}] == {fc}"
    if kind == "fc5":
        return f"{pre}len({d}) == {o+6+t} && {d}[{o+1}] == 5 && (be16({d},{o+4}) == 0xFF00 || be16({d},{o+4}) == 0)"
    if kind in ("fc6", "fc15", "fc16"):
        return f"{pre}len({d}) == {o+6+t} && {d}[{o+1}] == {fc}"
    if kind == "fc17":
        return f"{pre}len({d}) >= {o+4+t} + int({d}[{o+2}]) && int({d}[{o+2}]) >= 1 && {d}[{o+1}] == 17"

def decoded(kind, fc, d, o, r, lf, fr):
    t = 0 if fr == "TCP" else 2
    if kind in ("bytes", "regs"):
        return f"{r}.UnitID == {d}[{o}] && {r}.{lf} == {d}[{o+2}] && len({r}.Data) == int({d}[{o+2}]) && aliases({r}.Data, {d}, {o+3}, {o+3}+int({d}[{o+2}]))"
    if kind == "fc5":
        return f"{r}.UnitID == {d}[{o}] && {r}.StartAddress == be16({d},{o+2}) && {r}.CoilState == (be16({d},{o+4}) == 0xFF00)"
    if kind == "fc6":
        return f"{r}.UnitID == {d}[{o}] && {r}.Address == be16({d},{o+2}) && {r}.Data[0] == {d}[{o+4}] && {r}.Data[1] == {d}[{o+5}]"
    if kind == "fc15":
        return f"{r}.UnitID == {d}[{o}] && {r}.StartAddress == be16({d},{o+2}) && {r}.CoilCount == be16({d},{o+4})"
    if kind == "fc16":
        return f"{r}.UnitID == {d}[{o}] && {r}.StartAddress == be16({d},{o+2}) && {r}.RegisterCount == be16({d},{o+4})"
    if kind == "fc17":
        return (f"{r}.UnitID == {d}[{o}] && len({r}.ServerID) == int({d}[{o+2}]) && {r}.Status == {d}[{o+3}+int({d}[{o+2}])] && len({r}.AdditionalData) == len({d}) - {o+4+t} - int({d}[{o+2}]) && "
                f"(forall k in 0..len({r}.ServerID) :: {r}.ServerID[k] == {d}[{o+3}+k]) && (forall k in 0..len({r}.AdditionalData) :: {r}.AdditionalData[k] == {d}[{o+4}+int({d}[{o+2}])+k])")

def consistency(kind, d, o, fr):
    """what every accepted frame satisfies (length agrees with its own byte count)"""
    t = 0 if fr == "TCP" else 2
    if kind in ("bytes", "regs"):
        return f"len({d}) == {o+3+t} + int({d}[{o+2}])"
    if kind == "fc17":
        return f"len({d}) >= {o+4+t} + int({d}[{o+2}]) && int({d}[{o+2}]) >= 1"
    if fr == "TCP":
        return f"len({d}) >= 12 && int(be16({d},4)) == len({d}) - 6"
    return f"len({d}) == {o+8}"

def gen_resp_types():
    for name, fc, kind, lf, minbc in RESP:
        emit(f"// ---- {name} response (FC{fc}) ----", "")
        for fr in ("TCP", "RTU"):
            T = f"{name}Response{fr}"
            o = 6 if fr == "TCP" else 0
            if fr == "TCP":
                cl = enc_requires(kind, "r", lf) + ["safety[C02,C03]", "modifies[C02] nothing", "fresh[C02] res"]
                cl.append(f"ensures[C02,C16] mbapOK(res, r.TransactionID, {pdu_len(kind, 'r')}) && {pdu_resp(kind, fc, 'res', 6, 'r', lf)}")
            else:
                # RTU: C03 quantifies over every frame the encoder can emit, so the pre-condition is only what the encoder
                # needs not to panic (16-bit length arithmetic); the layout clause keeps the well-formedness of the value
                # as its antecedent, the length and the CRC trailer are unconditional.
                wf = None
                if kind == "bytes":
                    cl = ["requires len(r.Data) <= 65000"]
                    wf = "len(r.Data) <= 255"
                    ln = "3+len(r.Data)"
                elif kind == "regs":
                    cl = []
                    wf = f"int(r.{lf}) == len(r.Data)"
                    ln = f"3+int(r.{lf})"
                else:
                    cl = enc_requires(kind, "r", lf)
                    ln = pdu_len(kind, 'r')
                cl += ["safety[C02,C03]", "modifies[C02] nothing", "fresh[C02] res"]
                cl.append(f"ensures[C02,C03] len(res) == {ln} + 2")
                ante = f"{wf} ==> " if wf else ""
                cl.append(f"ensures[C02,C03] {ante}{pdu_resp(kind, fc, 'res', 0, 'r', lf)}")
                cl.append("ensures[C03] crcTrailer(res, len(res))")
            block(f"(r {T}) Bytes() (res []byte)", cl)
            # parser
            cl = ["safety[C10]", "noOverread[C10]", "modifies[C10,C13] nothing"]
            if kind in ("bytes", "regs"):
                cl.append(f"alias res.Data := data[{o+3}:{o+3}+int(data[{o+2}])] if err == nil")
            if kind == "fc17":
                cl.append("fresh[C02] res.ServerID, res.AdditionalData")
            cl.append("ensures[C10,C02] err != nil <==> res == nil")
            cl.append("ensures[C02,C12] dyntype(err) != *ErrorResponseTCP && dyntype(err) != *ErrorResponseRTU")
            cl.append(f"ensures[C02.accept,C07] {resp_wf(kind, fc, 'data', o, fr, minbc)} ==> err == nil")
            cl.append(f"ensures[C02.reject,C07] err == nil ==> {consistency(kind, 'data', o, fr)}")
            dec = decoded(kind, fc, "data", o, "res", lf, fr)
            if fr == "TCP":
                dec = "res.TransactionID == be16(data,0) && res.ProtocolID == 0 && " + dec
            cl.append(f"ensures[C02,C05,C11] err == nil ==> {dec}")
            block(f"Parse{T}(data []byte) (res *{T}, err error)", cl)

def gen_errors():
    emit("// ---- exception responses ----", "")
    block("(re ErrorResponseTCP) Bytes() (res []byte)", [
        "safety[C02,C16]", "modifies[C02] nothing", "fresh[C02] res",
        "ensures[C02,C16] len(res) == 9 && be16(res,0) == re.TransactionID && res[2] == 0 && res[3] == 0 && be16(res,4) == 3 && res[6] == re.UnitID && res[7] == re.Function + 128 && res[8] == re.Code"])
    block("(re ErrorResponseRTU) Bytes() (res []byte)", [
        "safety[C02,C03]", "modifies[C02] nothing", "fresh[C02] res",
        "ensures[C02,C03] len(res) == 5 && res[0] == re.UnitID && res[1] == re.Function + 128 && res[2] == re.Code",
        "ensures[C03] crcTrailer(res, 5)"])
    block("(e ErrorParseTCP) Bytes() (res []byte)", [
        "safety[C16]", "modifies[C16] nothing", "fresh[C16] res",
        "ensures[C16] len(res) == 9 && be16(res,0) == e.Packet.TransactionID && res[2] == 0 && res[3] == 0 && be16(res,4) == 3 && res[6] == e.Packet.UnitID && res[7] == e.Packet.Function + 128 && res[8] == e.Packet.Code"])
    block("NewErrorParseTCP(code uint8, message string) (res *ErrorParseTCP)", [
        "safety[C16]", "modifies[C16] nothing", "fresh[C16] res",
        "ensures[C16,C10] res != nil && res.Packet.TransactionID == 0 && res.Packet.UnitID == 0 && res.Packet.Function == 0 && res.Packet.Code == code"])
    block("AsTCPErrorPacket(data []byte) (err error)", [
        "safety[C10]", "noOverread[C10]", "modifies[C10] nothing",
        "ensures[C02,C07] (len(data) == 9 && data[7] & 128 != 0) <==> err != nil",
        "ensures[C02,C07] err != nil ==> dyntype(err) == *ErrorResponseTCP && err.(*ErrorResponseTCP) != nil && err.(*ErrorResponseTCP).TransactionID == be16(data,0) && err.(*ErrorResponseTCP).UnitID == data[6] && err.(*ErrorResponseTCP).Function == data[7] - 128 && err.(*ErrorResponseTCP).Code == data[8]"])
    block("AsRTUErrorPacket(data []byte) (err error)", [
        "safety[C10]", "noOverread[C10]", "modifies[C10] nothing",
        "ensures[C02,C07,C12] (len(data) == 5 && data[1] & 128 != 0) <==> err != nil",
        "ensures[C02,C07,C12] err != nil ==> dyntype(err) == *ErrorResponseRTU && err.(*ErrorResponseRTU) != nil && err.(*ErrorResponseRTU).UnitID == data[0] && err.(*ErrorResponseRTU).Function == data[1] - 128 && err.(*ErrorResponseRTU).Code == data[2]"])

def gen_crc_recogniser():
    block("AsRTUErrorPacketWithCRC(data []byte) (err error)", [
        "safety[C10]", "noOverread[C10]", "modifies[C10] nothing",
        "ensures[C12,C07] (len(data) == 5 && data[1] & 128 != 0 && crcTrailer(data, 5)) <==> err != nil",
        "ensures[C12,C07] err != nil ==> dyntype(err) == *ErrorResponseRTU && err.(*ErrorResponseRTU) != nil && err.(*ErrorResponseRTU).UnitID == data[0] && err.(*ErrorResponseRTU).Function == data[1] - 128 && err.(*ErrorResponseRTU).Code == data[2]"])

def gen_dispatchers():
    emit("// ---- response dispatchers ----", "")
    for disp, fr in (("ParseTCPResponse", "TCP"), ("ParseRTUResponse", "RTU"), ("ParseRTUResponseWithCRC", "RTU")):
        o = 6 if fr == "TCP" else 0
        crc = disp.endswith("WithCRC")
        cl = ["safety[C10]", "noOverread[C10]", "modifies[C10,C13] nothing"]
        for name, fc, kind, lf, minbc in RESP:
            if kind in ("bytes", "regs"):
                T = f"{name}Response{fr}"
                cl.append(f"alias res.(*{T}).Data := data[{o+3}:{o+3}+int(data[{o+2}])] if err == nil && data[{o+1}] == {fc}")
        cl.append("ensures[C10,C02] err != nil ==> nilish(res)")
        cl.append("ensures[C10.valueorerror,C02] err == nil ==> !nilish(res)")
        if crc:
            cl.append("ensures[C03,C12] len(data) >= 4 && !crcTrailer(data, len(data)) ==> err == ErrInvalidCRC && nilish(res)")
            cl.append("ensures[C03,C12] len(data) < 4 ==> err != nil && err != ErrInvalidCRC && dyntype(err) != *ErrorResponseRTU")
            cl.append("ensures[C03,C12] (err == nil || dyntype(err) == *ErrorResponseRTU) ==> len(data) >= 4 && crcTrailer(data, len(data))")
        E = "ErrorResponseTCP" if fr == "TCP" else "ErrorResponseRTU"
        exlen = 9 if fr == "TCP" else 5
        guard = f"len(data) >= {8 if fr == 'TCP' else 4}"
        if crc:
            guard += " && crcTrailer(data, len(data))"
        # exceptions: every frame with the high bit set is an error, never a response
        cl.append(f"ensures[C02,C07,C12] {guard} && data[{o+1}] & 128 != 0 ==> err != nil")
        if fr == "TCP":
            cl.append(f"ensures[C02,C07] len(data) == 9 && data[7] & 128 != 0 ==> dyntype(err) == *{E} && err.(*{E}) != nil && err.(*{E}).UnitID == data[6] && err.(*{E}).Function == data[7] - 128 && err.(*{E}).Code == data[8] && err.(*{E}).TransactionID == be16(data,0)")
        else:
            g5 = "len(data) == 5 && data[1] & 128 != 0"
            if crc:
                g5 += " && crcTrailer(data, 5)"
            cl.append(f"ensures[C02,C07,C12] {g5} ==> dyntype(err) == *{E} && err.(*{E}) != nil && err.(*{E}).UnitID == data[0] && err.(*{E}).Function == data[1] - 128 && err.(*{E}).Code == data[2]")
        cl.append(f"ensures[C02,C12] dyntype(err) == *{E} ==> len(data) == {exlen} && data[{o+1}] & 128 != 0")
        for name, fc, kind, lf, minbc in RESP:
            T = f"{name}Response{fr}"
            wf = resp_wf(kind, fc, "data", o, fr, minbc)
            if crc:
                wf = "crcTrailer(data, len(data)) && " + wf
            cl.append(f"ensures[C02.accept,C07] {wf} ==> err == nil")
            dec = decoded(kind, fc, "data", o, f"res.(*{T})", lf, fr)
            if fr == "TCP":
                dec = f"res.(*{T}).TransactionID == be16(data,0) && res.(*{T}).ProtocolID == 0 && " + dec
            cl.append(f"ensures[C02,C05,C07,C11] err == nil && data[{o+1}] == {fc} ==> dyntype(res) == *{T} && res.(*{T}) != nil && {consistency(kind, 'data', o, fr)} && {dec}")
        fcs = " || ".join(f"data[{o+1}] == {fc}" for _, fc, _, _, _ in RESP)
        cl.append(f"ensures[C02,C07] err == nil ==> {guard} && ({fcs})")
        block(f"{disp}(data []byte) (res Response, err error)", cl)

def gen_misc():
    emit("// ---- coil lookup, register views ----", "")
    block("isBitSet(data []byte, startBit uint16, bit uint16) (res bool, err error)", [
        "safety[C11,C10]", "noOverread[C11]", "modifies[C11,C13] nothing",
        "ensures[C11] (bit >= startBit && int(bit) - int(startBit) < 8*len(data)) <==> err == nil",
        "ensures[C11] err == nil ==> res == ((data[(int(bit)-int(startBit))/8] >> uint((int(bit)-int(startBit))%8)) & 1 == 1)"])
    for T, m in (("ReadCoilsResponse", "IsCoilSet"), ("ReadDiscreteInputsResponse", "IsInputSet"), ("ReadDiscreteInputsResponse", "IsCoilSet")):
        a = "coilAddress" if T == "ReadCoilsResponse" else "inputAddress"
        block(f"(r {T}) {m}(startAddress uint16, {a} uint16) (res bool, err error)", [
            "safety[C11]", "modifies[C11,C13] nothing",
            f"ensures[C11] ({a} >= startAddress && int({a}) - int(startAddress) < 8*len(r.Data)) <==> err == nil",
            f"ensures[C11] err == nil ==> res == ((r.Data[(int({a})-int(startAddress))/8] >> uint((int({a})-int(startAddress))%8)) & 1 == 1)"])
    for T in ("ReadHoldingRegistersResponse", "ReadInputRegistersResponse", "ReadWriteMultipleRegistersResponse"):
        block(f"(r {T}) AsRegisters(requestStartAddress uint16) (res *Registers, err error)", [
            "safety[C05]", "modifies[C13,C05] nothing",
            "alias res.data := r.Data if err == nil",
            "ensures[C05] (len(r.Data) >= 2 && len(r.Data)%2 == 0) <==> err == nil",
            "ensures[C05] err != nil <==> res == nil",
            "ensures[C05] err == nil ==> res.startAddress == requestStartAddress && res.defaultByteOrder == BigEndianHighWordFirst && len(res.data) == len(r.Data)",
            "ensures[C05] err == nil && len(r.Data) <= 250 && int(requestStartAddress) + len(r.Data)/2 <= 65536 ==> validRegs(res)"])

SPEC = r'''# responses: byte-count formats (FC1-4, FC23) and the library's FC17 layout
fun pduBytes(d []byte, o int, uid uint8, fc uint8, p []byte) bool = d[o] == uid && d[o+1] == fc && int(d[o+2]) == len(p) && forall k in 0..len(p) :: d[o+3+k] == p[k]
fun pduFC17Resp(d []byte, o int, uid uint8, sid []byte, status uint8, add []byte) bool = d[o] == uid && d[o+1] == 17 && int(d[o+2]) == len(sid) && (forall k in 0..len(sid) :: d[o+3+k] == sid[k]) && d[o+3+len(sid)] == status && (forall k in 0..len(add) :: d[o+4+len(sid)+k] == add[k])
'''

def generate():
    gen_resp_types()
    gen_errors()
    gen_crc_recogniser()
    gen_dispatchers()
    gen_misc()
    return "\n// ===== generated: responses =====\n\n" + "\n".join(OUT) + "\n"
