#!/bin/sh
# assembles the contract comment files in /repo from the masters in /verif/contracts
set -e
python3 /verif/tools/gen_contracts.py
for spec in "modbus:." "server:server"; do
  pkg=${spec%%:*}; dir=${spec##*:}
  src=/verif/contracts/${pkg}_manual.contracts
  [ -f "$src" ] || continue
  out=/repo/$dir/zz_contracts_verif.go
  { printf '//go:build verif\n\n// Contracts for package %s, checked by /verif/govc (contract-based deductive verification).\n// This file contains comments only; it is compiled only under the build tag "verif".\n\npackage %s\n\n' "$pkg" "$pkg"; cat "$src"; } > "$out"
  gofmt -w "$out"
done
python3 /verif/tools/gen_lemmas.py
