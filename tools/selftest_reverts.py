#!/usr/bin/env python3
"""Must-fail canaries: every `fix:` commit of /repo is reverted in the working tree (never committed), the check of
the property it repaired is run and must exit 1 with a VIOLATION line; the tree is restored afterwards.
Results: /verif/out/selftest_reverts.json"""
import json, subprocess, sys, os, time
def sh(cmd, cwd=None, timeout=3600):
    r=subprocess.run(cmd, shell=True, cwd=cwd, capture_output=True, text=True, timeout=timeout)
    return r.returncode, r.stdout+r.stderr
FIX={ # commit -> properties whose checks must alarm
 "f47e511":["C04"], "b900657":["C13"], "d0abb96":["C10"], "2a4f943":["C10"], "2a38aaa":["C01"], "a55984e":["C16"],
 "282cb9d":["C02"], "089d440":["C08"], "dddc233":["C12"], "ab825ec":["C15"], "78e2e7e":["C17"], "15f27c4":["C17"],
 "9547e31":["C17"], "c9d48a9":["C06"],
}
REPO=os.environ.get("SEED_REPO","/repo")
only=sys.argv[1:]
res={}
for c,props in FIX.items():
    if only and c not in only: continue
    rc,out=sh("git status --porcelain",REPO); assert out.strip()=="", out
    rc,out=sh(f"git diff {c} {c}~1 -- . ':(exclude)*zz_contracts_verif.go' | git apply --3way 2>&1 || git diff {c} {c}~1 -- . ':(exclude)*zz_contracts_verif.go' | git apply",REPO)
    rc2,st=sh("git status --porcelain",REPO)
    if rc!=0 or "UU" in st:
        sh("git reset -q --hard HEAD",REPO)
        res[c]={"status":"revert does not apply cleanly to HEAD (later changes touch the same lines)"}; print(c,res[c]); continue
    rcb,outb=sh("GOFLAGS=-mod=mod GOPROXY=off GOTOOLCHAIN=local go build ./...",REPO)
    if rcb!=0:
        sh("git reset -q --hard HEAD",REPO); res[c]={"status":"reverted tree does not build"}; print(c,res[c]); continue
    for p in props:
        t=time.time()
        try:
            rc,out=sh(f"./check --no-evidence --repo {REPO} {p}","/verif")
        finally:
            pass
        viol=[l for l in out.splitlines() if l.startswith("VIOLATION")]
        res[c+":"+p]={"exit":rc,"violations":len(viol),"first":(viol[0][:240] if viol else ""),"s":round(time.time()-t,1)}
        print(c,p,json.dumps(res[c+":"+p])[:330],flush=True)
    sh("git reset -q --hard HEAD",REPO)
    rc,out=sh("git status --porcelain",REPO); assert out.strip()=="", out
os.makedirs("/verif/out",exist_ok=True)
json.dump(res,open("/verif/out/selftest_reverts.json","w"),indent=1)
