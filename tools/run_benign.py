#!/usr/bin/env python3
"""Apply each harmless (behaviour-preserving) edit to a scratch worktree and run the checks of the properties whose
functions live in the touched files: every check must stay quiet (exit 0, no VIOLATION)."""
import json,os,subprocess,sys,glob
REPO=os.environ.get('BENIGN_REPO','/tmp/benrepo')
ROOT=os.environ.get('BENIGN_DIR','/verif/benign')
AREA_PROPS={
 'A':['C01','C02','C03','C06','C09','C10','C11','C16','C18'],
 'B':['C02','C03','C04','C07','C10','C11','C12','C13'],
 'C':['C03','C04','C05','C10','C11','C12','C13','C18'],
 'D':['C07','C08','C14','C19'],
 'E':['C07','C08','C12','C14','C19'],
 'F':['C05','C06','C13'],
 'G':['C05','C06'],
 'H':['C15','C16','C17'],
}
REDUCED={'A':['C01','C09','C11'],'B':['C02','C07','C12'],'C':['C03','C04','C18'],'D':['C07','C08','C19'],'E':['C07','C12','C19'],'F':['C05','C13'],'G':['C06'],'H':['C15','C16','C17']}
if os.environ.get('BENIGN_REDUCED'):
    AREA_PROPS=REDUCED
def main():
    ids=sys.argv[1:] or sorted(os.path.basename(p) for p in glob.glob(ROOT+'/*') if os.path.isdir(p))
    res={}
    for i in ids:
        d=os.path.join(ROOT,i)
        meta=json.load(open(d+'/meta.json'))
        props=AREA_PROPS[meta['area']]
        subprocess.run(['git','-C',REPO,'checkout','-q','--','.']);subprocess.run(['git','-C',REPO,'clean','-fdq'])
        r=subprocess.run(['git','-C',REPO,'apply',d+'/patch.diff'],capture_output=True,text=True)
        if r.returncode!=0:
            res[i]={'error':'patch does not apply: '+r.stderr[:200]};print(i,'APPLY-FAIL');continue
        out={}
        for p in props:
            r=subprocess.run(['/verif/check','--no-evidence','--repo',REPO,p],capture_output=True,text=True)
            v=[l for l in r.stdout.splitlines() if l.startswith('VIOLATION')]
            notes=[l for l in r.stdout.splitlines() if 'denotes renamed' in l]
            out[p]={'exit':r.returncode,'violations':[x[:260] for x in v[:4]],'n':len(v)}
        bad=[p for p in out if out[p]['exit']!=0]
        res[i]={'props':props,'kind':meta.get('kind'),'summary':meta['summary'][:160],'alarms':bad,'detail':{p:out[p] for p in bad}}
        print(i,meta.get('kind'),'ALARM '+','.join(bad) if bad else 'quiet',flush=True)
        subprocess.run(['git','-C',REPO,'checkout','-q','--','.']);subprocess.run(['git','-C',REPO,'clean','-fdq'])
    o=os.environ.get('BENIGN_OUT','/verif/out/benign_results.json')
    old={}
    if os.path.exists(o) and sys.argv[1:]:
        old=json.load(open(o))
    old.update(res)
    json.dump(old,open(o,'w'),indent=1)
main()
