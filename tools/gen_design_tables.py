#!/usr/bin/env python3
"""Fills the table of section 8 of DESIGN.md from out/seeded_results.json (last full run of tools/run_seeded.py)
and the evidence files (functions / obligations / time of the last run of each check)."""
import json, glob, os, re
res=json.load(open('/verif/out/seeded_results.json'))
rows=["| change | property | check exit | VIOLATION lines | with failing input replayed on the real code | first failed obligation |","|---|---|---|---|---|---|"]
for sid in sorted(res):
    r=res[sid]
    m=re.search(r'obligation=\\?"([^"\\]*)', r.get("first","")) or re.search(r'bounded-check=\\?"([^"\\]{0,80})', r.get("first",""))
    first=(m.group(1)[:90] if m else "")
    rows.append(f"| {sid} | {r['property']} | {r['exit']} | {r['violations']} | {r['with_replayed_input']} | `{first}` |")
caught=sum(1 for r in res.values() if r['exit']==1)
rows.append("")
rows.append(f"{caught} of {len(res)} validated changes are reported (exit 1 with a VIOLATION line).")
rows.append("")
rows.append("Last run of each check on the unchanged tree:")
rows.append("")
rows.append("| property | tier | functions under contract | obligations | discharged | known findings | bounded cases | wall s |")
rows.append("|---|---|---|---|---|---|---|---|")
for f in sorted(glob.glob('/verif/evidence/C*.json')):
    e=json.load(open(f)); c=e['coverage']
    b=sum(x.get('cases',0) for x in (c.get('bounded') or []))
    rows.append(f"| {e['property_id']} | {e['tier']} | {len(c.get('functions_under_contract') or [])} | {c['obligations']} | {c['discharged']} | {len(c.get('known_findings') or [])} | {b or ''} | {e['wall_s']} |")
s=open('/verif/DESIGN.md').read()
a=s.index('<!-- SEEDED-TABLE -->')
bmark='<!-- /SEEDED-TABLE -->'
if bmark in s:
    b=s.index(bmark)+len(bmark)
else:
    b=a+len('<!-- SEEDED-TABLE -->')
s=s[:a]+'<!-- SEEDED-TABLE -->\n'+"\n".join(rows)+'\n'+bmark+s[b:]
# harmless edits (section 8.2)
bp='/verif/out/benign_results.json'
if os.path.exists(bp) and '<!-- BENIGN-TABLE -->' in s:
    br=json.load(open(bp))
    RED={'A':['C01','C09','C11'],'B':['C02','C07','C12'],'C':['C03','C04','C18'],'D':['C07','C08','C19'],'E':['C07','C12','C19'],'F':['C05','C13'],'G':['C06'],'H':['C15','C16','C17']}
    rows=["| edit | kind | what | checks run | alarms |","|---|---|---|---|---|"]
    for k in sorted(br):
        r=br[k]
        rows.append(f"| {k} | {r.get('kind','')} | {(r.get('summary') or '')[:110].replace('|','/')} | {' '.join(r.get('props') or RED[k[0]])} | {' '.join(r.get('alarms') or []) or 'none'} |")
    quiet=sum(1 for r in br.values() if not r.get('alarms') and 'error' not in r)
    rows.append("")
    rows.append(f"{quiet} of {len(br)} harmless edits leave every affected check quiet.")
    a=s.index('<!-- BENIGN-TABLE -->'); bm='<!-- /BENIGN-TABLE -->'
    b=s.index(bm)+len(bm) if bm in s else a+len('<!-- BENIGN-TABLE -->')
    s=s[:a]+'<!-- BENIGN-TABLE -->\n'+"\n".join(rows)+'\n'+bm+s[b:]
open('/verif/DESIGN.md','w').write(s)
print("tables written:",len(res),"changes")
