#!/usr/bin/env python3
"""Validates seeded changes produced by independent sub-agents against the CURRENT /repo HEAD in a scratch
worktree (outside /repo and /verif): the change must apply, compile, pass the whole suite, its demonstration
must fail with it and pass without it.  Accepted ones are stored under /verif/seeded/<id>/."""
import json, os, subprocess, shutil, sys, glob
ENV=dict(os.environ, GOFLAGS="-mod=mod", GOPROXY="off", GOSUMDB="off", GOTOOLCHAIN="local")
WT="/tmp/wt-validate"
def sh(cmd, cwd=None, timeout=600):
    r=subprocess.run(cmd, shell=True, cwd=cwd, env=ENV, capture_output=True, text=True, timeout=timeout)
    return r.returncode, r.stdout+r.stderr
def main(srcs):
    sh(f"git -C /repo worktree remove --force {WT}")
    rc,out=sh(f"git -C /repo worktree add -q --detach {WT} HEAD"); assert rc==0, out
    try:
        for src in srcs:
            meta=json.load(open(src+"/meta.json"))
            sid=os.path.basename(os.path.dirname(src))+"-"+os.path.basename(src)+os.environ.get("SEED_SUFFIX","")
            res={"id":sid,"property":meta["property"]}
            rc,out=sh(f"git apply {src}/patch.diff", WT)
            if rc!=0: res["status"]="patch does not apply to current HEAD"; print(res); continue
            rc,out=sh("go build ./... && go test -vet=off -count=1 ./...", WT)
            res["suite_passes_with_change"]=(rc==0)
            pkgdir=meta.get("demo_pkg_dir",".")
            demo=os.path.join(WT,pkgdir,"zz_demo_seed_test.go")
            shutil.copy(src+"/"+meta.get("demo_file","demo_test.go"), demo)
            pk="./"+pkgdir if pkgdir!="." else "."
            rc1,o1=sh(f"go test -vet=off -count=1 -run 'ZZ|Seed|Demo' {pk}", WT)
            res["demo_fails_with_change"]=(rc1!=0)
            sh("git checkout -- .", WT)
            rc2,o2=sh(f"go test -vet=off -count=1 -run 'ZZ|Seed|Demo' {pk}", WT)
            res["demo_passes_without_change"]=(rc2==0)
            os.remove(demo)
            ok=res["suite_passes_with_change"] and res["demo_fails_with_change"] and res["demo_passes_without_change"]
            res["status"]="accepted" if ok else "rejected"
            print(json.dumps(res))
            if ok:
                dst=f"/verif/seeded/{sid}"; os.makedirs(dst, exist_ok=True)
                shutil.copy(src+"/patch.diff", dst+"/patch.diff")
                shutil.copy(src+"/"+meta.get("demo_file","demo_test.go"), dst+"/demo_test.go")
                m2={"property":meta["property"],"summary":meta.get("summary"),"needs":meta.get("needs"),"files":meta.get("files"),"demo_pkg_dir":pkgdir,
                    "origin":"written by an independent sub-agent that saw only the property text and a scratch worktree",
                    "validated_against":"current /repo HEAD (including fix: commits) in a scratch worktree",
                    "what_was_run":["go build ./... && go test -vet=off -count=1 ./...  (with the change: passes)",
                                    f"go test -vet=off -count=1 -run 'ZZ|Seed|Demo' {pk}  (with the change: FAILS; without: passes)"],
                    "verified":{k:res[k] for k in ("suite_passes_with_change","demo_fails_with_change","demo_passes_without_change")}}
                json.dump(m2,open(dst+"/meta.json","w"),indent=1)
    finally:
        sh(f"git -C /repo worktree remove --force {WT}")
if __name__=="__main__":
    main(sys.argv[1:] or sorted(glob.glob("/tmp/seed-out/C*/m*")))
