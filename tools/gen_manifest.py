#!/usr/bin/env python3
"""Writes /verif/MANIFEST.json from the table below (claimed checks + not_applicable list)."""
import json, subprocess
props=[json.loads(l) for l in open('/verif/properties.jsonl')]
CLAIMS = {
 "C01": ("proof: every request constructor (20), every request encoder Bytes() (20, helpers inlined from their real SSA), CoilsToBytes (loop invariant) are verified against the ADU layouts of spec/adu.spec for all unit ids, addresses, quantities and payloads (bit-vector arithmetic, symbolic 64-bit lengths); 20 lemma procedures compose constructor+encoder into 'arguments -> exact ADU, legal quantity, <=260/256 bytes'.",
         "Assumes the trusted base listed in evidence (go/ssa, govc translation, solvers, spec transcription, rand.Intn model). Known findings (constructor limits of FC16/FC23, pinned by the test-suite) are proved to be the only deviations via region+observed-behaviour obligations.", "4.C01"),
 "C02": ("proof: 20 response parsers, 3 response dispatchers, 2 exception recognisers and 22 response encoders against the response layouts; 20 lemma procedures prove parse then re-encode reproduces every well-formed frame byte for byte (all byte counts 0..255) and that the dispatcher yields the right dynamic type; dispatcher clauses prove every high-bit frame is an error and 9-byte (5-byte) exception frames become typed errors carrying uid/fc/code.",
         "Trusted base as in evidence. FC17 layout is the library's own (server-id length byte).", "4.C02"),
 "C03": ("proof: CRC16 body equals the bit-serial CRC-16/MODBUS fold for every length (two nested loop invariants over an uninterpreted fold with generated unfolding/frame-lemma instances; the frame lemma itself is proved by induction; published check values evaluated); CRC trailer post-condition on all 21 RTU encoders; iff-contract on both CRC-checking parse entry points.",
         "crc16 spec = MODBUS over Serial Line 6.2.2 transcribed in spec/crc.spec; frame-lemma instantiation by the engine.", "4.C03"),
 "C04": ("proof: NewRegisters, register/doubleRegister/quadRegister and all 25 typed accessors incl. String/StringWithByteOrder (two loops with invariants, strings.Builder ghost model) against the decode oracle of spec/registers.spec for every window position (incl. ending at 65535), every requested address, byte order and length; every read index < len (not <= cap).",
         "Oracle's word/byte permutation derived from the code and pinned by the suite (one definition shared by all 32/64-bit accessors). fmt.Fprintf(\"%c\")/strings.Builder are assumed (ghost append model).", "4.C04"),
 "C09": ("proof: 20 request parsers + 3 request dispatchers + constructors/encoders; 50 lemma procedures prove encode->parse->re-encode identity for all legal arguments through per-function parsers (RTU with and without trailer) and dispatchers; parsers proved to refuse out-of-limit quantity/count/coil value.",
         "Known findings: FC1/FC2 parsers refuse quantity 126..2000 (pinned by tests) - proved to be the only refusals of legal requests.", "4.C09"),
 "C10": ("proof: zero-annotation safety sweep (index/slice/nil/type-assert/divide obligations, plus the stricter 'no reslice beyond len' rule) over all 47 exported Parse* functions, ParseMBAPHeader, LooksLikeModbusTCP, AsTCPErrorPacket, AsRTUErrorPacket and every helper they inline, for a byte slice of symbolic 64-bit length with symbolic spare capacity; err != nil ==> nil result.",
         "Go panics other than index/slice/nil/assert/div (e.g. out of memory) not modelled.", "4.C10"),
 "C11": ("proof: isBitSet and IsCoilSet/IsInputSet against the Modbus bit layout (bit i%8 of byte i/8), error iff outside [start, start+8*len); write/read-back lemma over CoilsToBytes for every pattern of 1..1968 coils.",
         "Known finding: bytes are indexed from the end (pinned by the tests): proved to be exactly that behaviour (observed clause) and nothing else.", "4.C11"),
 "C18": ("proof: LooksLikeModbusTCP contract (loop invariant over the supported-codes table, against an independent list of the ten codes); lemma 1: classifier verdict for every prefix of every encodable frame of 10 FCs; lemma 2: whatever it accepts is parsed or rejected with a valid addressed exception reply.",
         "Known finding: length field 2 (own FC17 request) rejected, pinned by a test.", "4.C18"),
}
NA = {}
def reason_unbuilt(pid): return "check not built yet in this round (contracts for the client/server/builder packages are still being written); no claim is made"
checks=[]
for p in props:
    pid=p["id"]
    if pid in CLAIMS:
        text,note,ref=CLAIMS[pid]
        checks.append({"property_id":pid,"quick_cmd":f"./check {pid} --tier quick","thorough_cmd":f"./check {pid} --tier thorough",
          "evidence_file":f"/verif/evidence/{pid}.json","replay_cmd_template":f"./check {pid} --replay {{path}}","engine":"govc",
          "level_claimed":{"category":"proof","text":text,"design_ref":"DESIGN.md section "+ref},"level_note":note,
          "technique":"contract-based deductive verification: weakest-precondition style VCs generated by symbolic execution of go/ssa against //@ contracts, discharged by z3/cvc5; counterexamples replayed on the real code"})
na=[{"property_id":p["id"],"reason":NA.get(p["id"],reason_unbuilt(p["id"]))} for p in props if p["id"] not in CLAIMS]
commits=subprocess.run(['git','-C','/repo','log','--format=%h %s'],capture_output=True,text=True).stdout.splitlines()
hooks=[c.split()[0] for c in commits if c.split(' ',1)[1].startswith('verif:')]
m={"version":1,"setup_cmd":"cd /verif && ./setup.sh",
 "hooks":{"guard":"verif","enable":"-tags verif (comment-only contract files <pkg>/zz_contracts_verif.go; no executable hook)","baseline_off_cmd":"cd /repo && GOFLAGS=-mod=mod GOPROXY=off GOSUMDB=off GOTOOLCHAIN=local go test -json -vet=off -count=1 -timeout 25m ./...","source_commits":hooks,"add_only":True},
 "engines":[{"name":"govc","path":"/verif/govc","serves_properties":sorted(CLAIMS),"kind_free_text":"own deductive verifier for Go: go/ssa symbolic execution -> SMT-LIB (bit-vectors), contracts as //@ comments, lemma procedures as overlay Go files, solver portfolio z3 5.1/cvc5/z3 4.8, replay via go test -overlay"}],
 "checks":checks,
 "notes":"Known findings (genuine defects pinned by the unedited test-suite) are listed in /verif/known_findings.json; fixed defects are recorded there with their fix: commits. See DESIGN.md.",
 "not_applicable":na}
json.dump(m,open('/verif/MANIFEST.json','w'),indent=1)
print(len(checks),"claimed",len(na),"not applicable")
