#!/usr/bin/env python3
"""Runs the registered quick check of each seeded change's property against the change applied to /repo
(git apply; check; git checkout -- .) and reports whether a VIOLATION was raised."""
import json, os, subprocess, sys, glob, time
def sh(cmd, cwd=None, timeout=1800):
    r=subprocess.run(cmd, shell=True, cwd=cwd, capture_output=True, text=True, timeout=timeout)
    return r.returncode, r.stdout+r.stderr
REPO=os.environ.get("SEED_REPO","/repo")  # a scratch worktree may be used for long sweeps; the registered way is /repo itself
ids=sys.argv[1:] or sorted(os.path.basename(p) for p in glob.glob("/verif/seeded/*"))
claimed={c["property_id"] for c in json.load(open("/verif/MANIFEST.json"))["checks"]}
extra=set(os.environ.get("EXTRA_PROPS","").split(","))
res={}
for sid in ids:
    d=f"/verif/seeded/{sid}"
    meta=json.load(open(d+"/meta.json")); prop=meta["property"]
    if prop not in claimed and prop not in extra:
        print(f"{sid}: property {prop} not claimed - skipped"); continue
    rc,out=sh("git status --porcelain", REPO); assert out.strip()=="", "repo not clean: "+out
    rc,out=sh(f"git apply {d}/patch.diff", REPO); assert rc==0, out
    t=time.time()
    try:
        rc,out=sh(f"./check --no-evidence --repo {REPO} {prop}", "/verif")
    except subprocess.TimeoutExpired:
        rc,out=-9,"(check timed out in the sweep harness)"
    finally:
        sh("git checkout -- . && git clean -fdq", REPO)
    viol=[l for l in out.splitlines() if l.startswith("VIOLATION")]
    confirmed=[l for l in viol if "no-failing-input-found" not in l]
    res[sid]={"property":prop,"exit":rc,"violations":len(viol),"with_replayed_input":len(confirmed),"first":(viol[0][:300] if viol else ""),"s":round(time.time()-t,1)}
    print(sid, json.dumps(res[sid])[:420], flush=True)
    OUT=os.environ.get("SEED_OUT","/verif/out/seeded_results.json")
    allres={}
    if os.environ.get("SEED_MERGE") and os.path.exists(OUT):
        allres=json.load(open(OUT))
    allres.update(res)
    json.dump(allres,open(OUT,"w"),indent=1)
