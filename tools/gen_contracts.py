#!/usr/bin/env python3
"""Generates the contract comment file /repo/packet/zz_contracts_verif.go from
/verif/contracts/packet_manual.contracts (hand written) plus the per-function-code tables below.
The tables transcribe the request/response layouts of MODBUS Application Protocol V1.1b3 section 6;
the limits are the specification's, not the code's (so code that disagrees fails its obligation).
Run:  python3 /verif/tools/gen_contracts.py  (then commit the file in /repo)."""
import sys

OUT = []
def emit(*lines):
    for l in lines:
        OUT.append(l)

def block(sig, clauses):
    emit("//@ func " + sig)
    for c in clauses:
        emit("//@   " + c)
    emit("")

# name, fc, kind, spec max quantity
REQ = [
    ("ReadCoils", 1, "read", 2000),
    ("ReadDiscreteInputs", 2, "read", 2000),
    ("ReadHoldingRegisters", 3, "read", 125),
    ("ReadInputRegisters", 4, "read", 125),
    ("WriteSingleCoil", 5, "fc5", 0),
    ("WriteSingleRegister", 6, "fc6", 0),
    ("WriteMultipleCoils", 15, "fc15", 1968),
    ("WriteMultipleRegisters", 16, "fc16", 123),
    ("ReadServerID", 17, "fc17", 0),
    ("ReadWriteMultipleRegisters", 23, "fc23", 0),
]

def pdu_req(kind, fc, d, o, r):
    """predicate: bytes of d at offset o are the request PDU (with unit id) of struct r"""
    if kind == "read":
        return f"pduRead({d}, {o}, {r}.UnitID, {fc}, {r}.StartAddress, {r}.Quantity)"
    if kind == "fc5":
        return f"pduFC5({d}, {o}, {r}.UnitID, {r}.Address, {r}.CoilState)"
    if kind == "fc6":
        return f"pduFC6({d}, {o}, {r}.UnitID, {r}.Address, {r}.Data[0], {r}.Data[1])"
    if kind == "fc15":
        return f"pduWriteN({d}, {o}, {r}.UnitID, 15, {r}.StartAddress, {r}.CoilCount, {r}.Data)"
    if kind == "fc16":
        return f"pduWriteN({d}, {o}, {r}.UnitID, 16, {r}.StartAddress, {r}.RegisterCount, {r}.Data)"
    if kind == "fc17":
        return f"pduFC17({d}, {o}, {r}.UnitID)"
    if kind == "fc23":
        return f"pduFC23({d}, {o}, {r}.UnitID, {r}.ReadStartAddress, {r}.ReadQuantity, {r}.WriteStartAddress, {r}.WriteQuantity, {r}.WriteData)"
    raise ValueError(kind)

def pdu_len(kind, r):
    return {"read": "6", "fc5": "6", "fc6": "6", "fc15": f"7+len({r}.Data)", "fc16": f"7+len({r}.Data)", "fc17": "2", "fc23": f"11+len({r}.WriteData)"}[kind]

def payload_field(kind):
    return {"fc15": "Data", "fc16": "Data", "fc23": "WriteData"}.get(kind)

def enc_requires(kind, r):
    pf = payload_field(kind)
    if pf:
        return [f"requires len({r}.{pf}) <= 255"]
    return []

def ctor_sig(name, kind, fr):
    args = {"read": "unitID uint8, startAddress uint16, quantity uint16",
            "fc5": "unitID uint8, address uint16, coilState bool",
            "fc6": "unitID uint8, address uint16, data []byte",
            "fc15": "unitID uint8, startAddress uint16, coils []bool",
            "fc16": "unitID uint8, startAddress uint16, data []byte",
            "fc17": "unitID uint8",
            "fc23": "unitID uint8, readStartAddress uint16, readQuantity uint16, writeStartAddress uint16, writeData []byte"}[kind]
    return f"New{name}Request{fr}({args}) (res *{name}Request{fr}, err error)"

def legal_args(kind, mx):
    if kind == "read":
        return f"quantity >= 1 && quantity <= {mx}"
    if kind == "fc15":
        return "len(coils) >= 1 && len(coils) <= 1968"
    if kind == "fc16":
        return "len(data)%2 == 0 && len(data) >= 2 && len(data) <= 246"
    if kind == "fc23":
        return "readQuantity >= 1 && readQuantity <= 125 && len(writeData)%2 == 0 && len(writeData) >= 2 && len(writeData) <= 242"
    return "true"

def ctor_fields(kind, fr):
    base = {"read": "res.UnitID == unitID && res.StartAddress == startAddress && res.Quantity == quantity",
            "fc5": "res.UnitID == unitID && res.Address == address && res.CoilState == coilState",
            "fc6": "res.UnitID == unitID && res.Address == address && (len(data) >= 2 ==> res.Data[0] == data[0] && res.Data[1] == data[1])",
            "fc15": "res.UnitID == unitID && res.StartAddress == startAddress && int(res.CoilCount) == len(coils) && len(res.Data) == (len(coils)+7)/8",
            "fc16": "res.UnitID == unitID && res.StartAddress == startAddress && int(res.RegisterCount) == len(data)/2 && len(res.Data) == len(data)",
            "fc17": "res.UnitID == unitID",
            "fc23": "res.UnitID == unitID && res.ReadStartAddress == readStartAddress && res.ReadQuantity == readQuantity && res.WriteStartAddress == writeStartAddress && int(res.WriteQuantity) == len(writeData)/2 && len(res.WriteData) == len(writeData)"}[kind]
    if fr == "TCP":
        base += " && res.ProtocolID == 0"
    return base

def gen_requests():
    for name, fc, kind, mx in REQ:
        emit(f"// ---- {name} request (FC{fc}) ----", "")
        for fr in ("TCP", "RTU"):
            T = f"{name}Request{fr}"
            # constructor
            c6 = ",C06" if kind == "read" else ""  # only the four read constructors are reached from the request builder
            if kind == "fc15":
                c6 = ",C11"  # C11: every pattern of 1..1968 coils can be written (and read back)
            if kind == "read" and fc in (1, 2):
                c6 = ",C06,C11"  # C11: ... and read back: every coil range up to address 65535 can be requested
            cl = [f"safety[C01{c6}]", "modifies[C01] nothing"]
            if kind == "fc16":
                cl.append("alias res.Data := data if err == nil")
            if kind == "fc23":
                cl.append("alias res.WriteData := writeData if err == nil")
            cl.append(f"ensures[C01.legal{c6}] ({legal_args(kind, mx)}) <==> err == nil")
            cl.append(f"ensures[C01{c6},C10] err != nil <==> res == nil")
            cl.append(f"ensures[C01,C05{c6},C09] err == nil ==> {ctor_fields(kind, fr)}")
            if kind == "fc15":
                cl.append("ensures[C01,C11] err == nil ==> forall k in 0..len(coils) :: ((res.Data[k/8] >> uint(k%8)) & 1 == 1) == coils[k]")
                cl.append("ensures[C01] err == nil ==> forall k in len(coils)..8*len(res.Data) :: (res.Data[k/8] >> uint(k%8)) & 1 == 0")
            block(ctor_sig(name, kind, fr), cl)
            # Bytes
            e11 = ",C11" if kind == "fc15" else ""  # C11: the coils written are the coils on the wire (write / read-back)
            if fr == "TCP":
                cl = enc_requires(kind, "r") + [f"safety[C01,C03{e11}]", "modifies[C01] nothing", "fresh[C01] res"]
                cl.append(f"ensures[C01,C09,C18{e11}] mbapOK(res, r.TransactionID, {pdu_len(kind, 'r')}) && {pdu_req(kind, fc, 'res', 6, 'r')}")
            else:
                # RTU: weakest pre-condition (C03 speaks of every frame the encoder can emit); layout under well-formedness
                pf = payload_field(kind)
                cl = ([f"requires len(r.{pf}) <= 65000"] if pf else []) + [f"safety[C01,C03{e11}]", "modifies[C01] nothing", "fresh[C01] res"]
                cl.append(f"ensures[C01,C03,C09] len(res) == {pdu_len(kind, 'r')} + 2")
                ante = f"len(r.{pf}) <= 255 ==> " if pf else ""
                cl.append(f"ensures[C01,C03,C09{e11}] {ante}{pdu_req(kind, fc, 'res', 0, 'r')}")
                cl.append("ensures[C03,C01] crcTrailer(res, len(res))")
            block(f"(r {T}) Bytes() (res []byte)", cl)
        # ExpectedResponseLength
        for fr in ("TCP", "RTU"):
            T = f"{name}Request{fr}"
            recvT = T
            if name in ("ReadHoldingRegisters", "ReadInputRegisters") and fr == "RTU":
                recvT = f"{name}Request"  # method is declared on the embedded struct
            hdr = 9 if fr == "TCP" else 5
            fixed = 12 if fr == "TCP" else 8
            if kind == "read" and fc in (1, 2):
                e = f"res == {hdr} + (int(r.Quantity)+7)/8"
            elif kind == "read":
                e = f"res == {hdr} + 2*int(r.Quantity)"
            elif kind in ("fc5", "fc6", "fc15", "fc16"):
                e = f"res == {fixed}"
            elif kind == "fc23":
                e = f"res == {hdr} + 2*int(r.ReadQuantity)"
            else:
                e = None
            cl = ["safety[C07]", "modifies[C07] nothing"]
            if e:
                cl.append(f"ensures[C07] {e}")
            else:
                # FC17: the reply length is not a function of the request; the shortest reply is header + byte count + 1 id byte + status (+CRC)
                cl.append(f"ensures[C07] res <= {hdr + 2 + (0 if fr == 'TCP' else 2)}")
            block(f"(r {recvT}) ExpectedResponseLength() (res int)", cl)

def legal_frame(kind, fc, d, o, mx):
    """legality of the fields found in frame d (PDU with unit id at o)"""
    if kind == "read":
        return f"be16({d},{o+4}) >= 1 && be16({d},{o+4}) <= {mx}"
    if kind == "fc5":
        return f"(be16({d},{o+4}) == 0xFF00 || be16({d},{o+4}) == 0)"
    if kind == "fc15":
        return f"be16({d},{o+4}) >= 1 && be16({d},{o+4}) <= 1968"
    if kind == "fc16":
        return f"be16({d},{o+4}) >= 1 && be16({d},{o+4}) <= 123"
    if kind == "fc23":
        return f"be16({d},{o+4}) >= 1 && be16({d},{o+4}) <= 125 && be16({d},{o+8}) >= 1 && be16({d},{o+8}) <= 121"
    return "true"

def bytecount_ok(kind, d, o):
    """the byte count field agrees with the quantity field (what a legal request carries)"""
    if kind == "fc15":
        return f" && int({d}[{o+6}]) == (int(be16({d},{o+4}))+7)/8"
    if kind == "fc16":
        return f" && int({d}[{o+6}]) == 2*int(be16({d},{o+4}))"
    if kind == "fc23":
        return f" && int({d}[{o+10}]) == 2*int(be16({d},{o+8}))"
    return ""

def frame_len_ok(kind, d, o, fr, crconly=False):
    """frame length consistent with its own byte count (what an encoder produces)"""
    tail = 0 if fr == "TCP" else 2
    if crconly:
        return {"read": f"len({d}) == {o+8}", "fc5": f"len({d}) == {o+8}", "fc6": f"len({d}) == {o+8}",
                "fc15": f"len({d}) == {o+9} + int({d}[{o+6}])", "fc16": f"len({d}) == {o+9} + int({d}[{o+6}])",
                "fc17": f"len({d}) == {o+4}", "fc23": f"len({d}) == {o+13} + int({d}[{o+10}])"}[kind]
    if kind in ("read", "fc5", "fc6"):
        n = f"len({d}) == {o+6+tail}"
        if fr == "RTU":
            n = f"(len({d}) == {o+6} || len({d}) == {o+8})"
        return n
    if kind in ("fc15", "fc16"):
        if fr == "TCP":
            return f"len({d}) == {o+7} + int({d}[{o+6}])"
        return f"(len({d}) == {o+7} + int({d}[{o+6}]) || len({d}) == {o+9} + int({d}[{o+6}]))"
    if kind == "fc17":
        if fr == "TCP":
            return f"len({d}) == {o+2}"
        return f"(len({d}) == {o+2} || len({d}) == {o+4})"
    if kind == "fc23":
        if fr == "TCP":
            return f"len({d}) == {o+11} + int({d}[{o+10}])"
        return f"(len({d}) == {o+11} + int({d}[{o+10}]) || len({d}) == {o+13} + int({d}[{o+10}]))"

def decoded_fields(kind, d, o, r):
    if kind == "read":
        return f"{r}.UnitID == {d}[{o}] && {r}.StartAddress == be16({d},{o+2}) && {r}.Quantity == be16({d},{o+4})"
    if kind == "fc5":
        return f"{r}.UnitID == {d}[{o}] && {r}.Address == be16({d},{o+2}) && {r}.CoilState == (be16({d},{o+4}) == 0xFF00)"
    if kind == "fc6":
        return f"{r}.UnitID == {d}[{o}] && {r}.Address == be16({d},{o+2}) && {r}.Data[0] == {d}[{o+4}] && {r}.Data[1] == {d}[{o+5}]"
    if kind == "fc15":
        return f"{r}.UnitID == {d}[{o}] && {r}.StartAddress == be16({d},{o+2}) && {r}.CoilCount == be16({d},{o+4}) && len({r}.Data) == int({d}[{o+6}]) && forall k in 0..len({r}.Data) :: {r}.Data[k] == {d}[{o+7}+k]"
    if kind == "fc16":
        return f"{r}.UnitID == {d}[{o}] && {r}.StartAddress == be16({d},{o+2}) && {r}.RegisterCount == be16({d},{o+4}) && len({r}.Data) == int({d}[{o+6}]) && forall k in 0..len({r}.Data) :: {r}.Data[k] == {d}[{o+7}+k]"
    if kind == "fc17":
        return f"{r}.UnitID == {d}[{o}]"
    if kind == "fc23":
        return (f"{r}.UnitID == {d}[{o}] && {r}.ReadStartAddress == be16({d},{o+2}) && {r}.ReadQuantity == be16({d},{o+4}) && {r}.WriteStartAddress == be16({d},{o+6}) && "
                f"{r}.WriteQuantity == be16({d},{o+8}) && len({r}.WriteData) == int({d}[{o+10}]) && forall k in 0..len({r}.WriteData) :: {r}.WriteData[k] == {d}[{o+11}+k]")

def gen_request_parsers():
    emit("// ---- request parsers ----", "")
    for name, fc, kind, mx in REQ:
        for fr in ("TCP", "RTU"):
            T = f"{name}Request{fr}"
            o = 6 if fr == "TCP" else 0
            # a panic in a request parser also breaks the classifier/dispatcher agreement (C18) and the server's reply (C16)
            cl = ["safety[C10,C16,C18]", "noOverread[C10]", "modifies[C10] nothing"]
            pf = payload_field(kind)
            if pf:
                cl.append(f"fresh[C09] res.{pf}")
            cl.append("ensures[C10] err != nil ==> res == nil")
            wf = frame_len_ok(kind, "data", o, fr)
            if fr == "TCP":
                wf = f"hdrWF(data) && {wf}"
            cl.append(f"ensures[C09.accept] {wf} && data[{o+1}] == {fc} && {legal_frame(kind, fc, 'data', o, mx)}{bytecount_ok(kind, 'data', o)} ==> err == nil")
            cl.append(f"ensures[C09.refuse] err == nil ==> res != nil && data[{o+1}] == {fc} && {legal_frame(kind, fc, 'data', o, mx)}")
            dec = decoded_fields(kind, "data", o, "res")
            if fr == "TCP":
                dec = f"res.TransactionID == be16(data,0) && res.ProtocolID == 0 && " + dec
                cl.append("ensures[C09,C18] err == nil ==> hdrWF(data)")
            cl.append(f"ensures[C09,C18] err == nil ==> {dec}")
            if fr == "TCP":
                cl.append("ensures[C10,C16,C18] err != nil ==> dyntype(err) == *ErrorParseTCP && err.(*ErrorParseTCP) != nil")
                cl.append(f"ensures[C16,C18] err != nil && hdrWF(data) ==> errAddressed(err.(*ErrorParseTCP).Packet, data, {fc}) && (err.(*ErrorParseTCP).Packet.Code == 1 || err.(*ErrorParseTCP).Packet.Code == 3)")
                minlen = {"read": 12, "fc5": 12, "fc6": 12, "fc15": 13, "fc16": 13, "fc17": 8, "fc23": 17}[kind]
                cl.append(f"ensures[C16] err != nil && hdrWF(data) && len(data) >= {minlen} && data[7] != {fc} ==> err.(*ErrorParseTCP).Packet.Code == 1")
                cl.append(f"ensures[C16] err != nil && hdrWF(data) && data[7] == {fc} ==> err.(*ErrorParseTCP).Packet.Code == 3")
            block(f"Parse{T}(data []byte) (res *{T}, err error)", cl)

def gen_request_dispatchers():
    emit("// ---- request dispatchers ----", "")
    for disp, fr, rtype in (("ParseTCPRequest", "TCP", "Request"), ("ParseRTURequest", "RTU", "Request"), ("ParseRTURequestWithCRC", "RTU", "Response")):
        o = 6 if fr == "TCP" else 0
        cl = ["safety[C10,C16,C18]", "noOverread[C10]", "modifies[C10] nothing", "ensures[C10] err != nil ==> nilish(res)", "ensures[C10.valueorerror] err == nil ==> !nilish(res)"]
        crc = disp.endswith("WithCRC")
        if crc:
            cl.append("ensures[C03] len(data) >= 4 && !crcTrailer(data, len(data)) ==> err == ErrInvalidCRC && nilish(res)")
            cl.append("ensures[C03] len(data) < 4 ==> err != nil && err != ErrInvalidCRC")
            cl.append("ensures[C03] err == nil ==> len(data) >= 4 && crcTrailer(data, len(data))")
        for name, fc, kind, mx in REQ:
            T = f"{name}Request{fr}"
            wf = frame_len_ok(kind, "data", o, fr, crconly=(fr == "RTU"))
            if fr == "TCP":
                wf = f"hdrWF(data) && {wf}"
            if crc:
                # the CRC-checking entry point only accepts frames carrying the trailer
                wf = f"len(data) >= 4 && crcTrailer(data, len(data)) && {wf}"
            cl.append(f"ensures[C09.accept] {wf} && data[{o+1}] == {fc} && {legal_frame(kind, fc, 'data', o, mx)}{bytecount_ok(kind, 'data', o)} ==> err == nil")
            dec = decoded_fields(kind, "data", o, f"res.(*{T})")
            if fr == "TCP":
                dec = f"res.(*{T}).TransactionID == be16(data,0) && res.(*{T}).ProtocolID == 0 && " + dec
            cl.append(f"ensures[C09,C18] err == nil && data[{o+1}] == {fc} ==> dyntype(res) == *{T} && res.(*{T}) != nil && {legal_frame(kind, fc, 'data', o, mx)} && {dec}")
        fcs = " || ".join(f"data[{o+1}] == {fc}" for _, fc, _, _ in REQ)
        cl.append(f"ensures[C09,C18] err == nil ==> len(data) >= {8 if fr == 'TCP' else 4} && ({fcs})")
        if fr == "TCP":
            cl.append("ensures[C09,C18] err == nil ==> hdrWF(data)")
            cl.append("ensures[C10,C16,C18] err != nil ==> dyntype(err) == *ErrorParseTCP && err.(*ErrorParseTCP) != nil")
            cl.append(f"ensures[C16,C18] err != nil && hdrWF(data) && len(data) >= 8 && ({fcs}) ==> errAddressed(err.(*ErrorParseTCP).Packet, data, data[7]) && err.(*ErrorParseTCP).Packet.Code == 3")
        block(f"{disp}(data []byte) (res {rtype}, err error)", cl)

SPEC = r'''# ADU layouts (MODBUS Application Protocol V1.1b3, section 6; MODBUS Messaging on TCP/IP V1.0b section 3.1.3;
# MODBUS over Serial Line V1.02 section 2.5.1).  d is the frame, o the offset of the unit id.
fun mbapOK(d []byte, tid uint16, n int) bool = len(d) == 6+n && be16(d,0) == tid && d[2] == 0 && d[3] == 0 && int(be16(d,4)) == n
fun hdrWF(d []byte) bool = len(d) >= 7 && d[2] == 0 && d[3] == 0 && int(be16(d,4)) == len(d)-6
fun pduRead(d []byte, o int, uid uint8, fc uint8, addr uint16, qty uint16) bool = d[o] == uid && d[o+1] == fc && be16(d,o+2) == addr && be16(d,o+4) == qty
fun pduFC5(d []byte, o int, uid uint8, addr uint16, on bool) bool = d[o] == uid && d[o+1] == 5 && be16(d,o+2) == addr && be16(d,o+4) == ite(on, uint16(0xFF00), uint16(0))
fun pduFC6(d []byte, o int, uid uint8, addr uint16, b0 uint8, b1 uint8) bool = d[o] == uid && d[o+1] == 6 && be16(d,o+2) == addr && d[o+4] == b0 && d[o+5] == b1
fun pduWriteN(d []byte, o int, uid uint8, fc uint8, addr uint16, cnt uint16, p []byte) bool = d[o] == uid && d[o+1] == fc && be16(d,o+2) == addr && be16(d,o+4) == cnt && int(d[o+6]) == len(p) && forall k in 0..len(p) :: d[o+7+k] == p[k]
fun pduFC17(d []byte, o int, uid uint8) bool = d[o] == uid && d[o+1] == 17
fun pduFC23(d []byte, o int, uid uint8, ra uint16, rq uint16, wa uint16, wq uint16, p []byte) bool = d[o] == uid && d[o+1] == 23 && be16(d,o+2) == ra && be16(d,o+4) == rq && be16(d,o+6) == wa && be16(d,o+8) == wq && int(d[o+10]) == len(p) && forall k in 0..len(p) :: d[o+11+k] == p[k]
# RTU framing: the last two bytes are the CRC-16 of everything before them, low byte first
fun crcTrailer(d []byte, n int) bool = n >= 2 && d[n-2] == lo8(crc16(d, n-2)) && d[n-1] == hi8(crc16(d, n-2))
# exception replies are addressed to the request they answer
fun isException(r []byte) bool = len(r) == 9 && r[7] & 128 != 0
fun exceptionFor(r []byte, q []byte) bool = len(r) == 9 && r[0] == q[0] && r[1] == q[1] && r[2] == 0 && r[3] == 0 && be16(r,4) == 3 && r[6] == q[6] && r[7] == q[7] | 128
fun errAddressed(p ErrorResponseTCP, d []byte, fc uint8) bool = p.TransactionID == be16(d,0) && p.UnitID == d[6] && p.Function == fc
'''

def main():
    manual = open("/verif/contracts/packet_manual.contracts").read()
    gen_requests()
    gen_request_parsers()
    gen_request_dispatchers()
    extra = ""
    try:
        sys.path.insert(0, "/verif/tools")
        import gen_responses
        extra = gen_responses.generate()
    except ImportError:
        pass
    hdr = ('//go:build verif\n\n// Contracts for package packet, checked by /verif/govc (contract-based deductive verification).\n'
           '// This file contains comments only; it is compiled only under the build tag "verif".\n'
           '// The hand-written part comes from /verif/contracts/packet_manual.contracts, the per-function-code\n'
           '// part is generated by /verif/tools/gen_contracts.py from the specification\'s layout tables.\n\npackage packet\n\n')
    open("/repo/packet/zz_contracts_verif.go", "w").write(hdr + manual + "\n// ===== generated: requests =====\n\n" + "\n".join(OUT) + "\n" + extra)
    import subprocess
    subprocess.run(["gofmt", "-w", "/repo/packet/zz_contracts_verif.go"], check=True)
    open("/verif/spec/adu.spec", "w").write(SPEC + (gen_responses.SPEC if extra else ""))

if __name__ == "__main__":
    main()
