package modbus

import (
	"github.com/aldas/go-modbus-client/packet"
)

// Lemma procedures for property C05 (hand written): ghost code, overlay only, never part of the repository.

// The assumed contract of the interface method RegistersResponse.AsRegisters is a consequence of the verified
// contracts of the four implementations (refinement check: the call below resolves to the concrete method).
func lemmaC05AsRegistersHoldingTCP(r *packet.ReadHoldingRegistersResponseTCP, start uint16) (res *packet.Registers, err error) {
	var rr RegistersResponse = r
	return rr.AsRegisters(start)
}

//@ func lemmaC05AsRegistersHoldingTCP(r *packet.ReadHoldingRegistersResponseTCP, start uint16) (res *packet.Registers, err error)
//@   requires r != nil && len(r.Data) <= 250 && int(start) + len(r.Data)/2 <= 65536
//@   ensures[C05] err != nil <==> res == nil
//@   ensures[C05] err == nil <==> len(r.Data) >= 2 && len(r.Data)%2 == 0
//@   ensures[C05] err == nil ==> validRegs(res) && res.startAddress == start && res.defaultByteOrder == packet.BigEndianHighWordFirst && aliases(res.data, r.Data, 0, len(r.Data))

func lemmaC05AsRegistersHoldingRTU(r *packet.ReadHoldingRegistersResponseRTU, start uint16) (res *packet.Registers, err error) {
	var rr RegistersResponse = r
	return rr.AsRegisters(start)
}

//@ func lemmaC05AsRegistersHoldingRTU(r *packet.ReadHoldingRegistersResponseRTU, start uint16) (res *packet.Registers, err error)
//@   requires r != nil && len(r.Data) <= 250 && int(start) + len(r.Data)/2 <= 65536
//@   ensures[C05] err != nil <==> res == nil
//@   ensures[C05] err == nil <==> len(r.Data) >= 2 && len(r.Data)%2 == 0
//@   ensures[C05] err == nil ==> validRegs(res) && res.startAddress == start && res.defaultByteOrder == packet.BigEndianHighWordFirst && aliases(res.data, r.Data, 0, len(r.Data))

func lemmaC05AsRegistersInputTCP(r *packet.ReadInputRegistersResponseTCP, start uint16) (res *packet.Registers, err error) {
	var rr RegistersResponse = r
	return rr.AsRegisters(start)
}

//@ func lemmaC05AsRegistersInputTCP(r *packet.ReadInputRegistersResponseTCP, start uint16) (res *packet.Registers, err error)
//@   requires r != nil && len(r.Data) <= 250 && int(start) + len(r.Data)/2 <= 65536
//@   ensures[C05] err != nil <==> res == nil
//@   ensures[C05] err == nil <==> len(r.Data) >= 2 && len(r.Data)%2 == 0
//@   ensures[C05] err == nil ==> validRegs(res) && res.startAddress == start && res.defaultByteOrder == packet.BigEndianHighWordFirst && aliases(res.data, r.Data, 0, len(r.Data))

func lemmaC05AsRegistersInputRTU(r *packet.ReadInputRegistersResponseRTU, start uint16) (res *packet.Registers, err error) {
	var rr RegistersResponse = r
	return rr.AsRegisters(start)
}

//@ func lemmaC05AsRegistersInputRTU(r *packet.ReadInputRegistersResponseRTU, start uint16) (res *packet.Registers, err error)
//@   requires r != nil && len(r.Data) <= 250 && int(start) + len(r.Data)/2 <= 65536
//@   ensures[C05] err != nil <==> res == nil
//@   ensures[C05] err == nil <==> len(r.Data) >= 2 && len(r.Data)%2 == 0
//@   ensures[C05] err == nil ==> validRegs(res) && res.startAddress == start && res.defaultByteOrder == packet.BigEndianHighWordFirst && aliases(res.data, r.Data, 0, len(r.Data))

// Composition: a request the builder produced (reqOK), answered by a device with exactly the registers asked for
// (resp.Data is the device memory image of the window [StartAddress, StartAddress+quantity)), extracted strictly or
// leniently: every field is reported once, attached to its own definition, without error, and its value is the decoding
// of the device memory at 2*(address-start) with the field's type and byte order.
func lemmaC05HoldingTCP(r BuilderRequest, resp *packet.ReadHoldingRegistersResponseTCP, lenient bool) (vals []FieldValue, err error) {
	return r.ExtractFields(resp, lenient)
}

//@ func lemmaC05HoldingTCP(r BuilderRequest, resp *packet.ReadHoldingRegistersResponseTCP, lenient bool) (vals []FieldValue, err error)
//@   requires resp != nil && reqOK(r, 4) && len(resp.Data) == 2*int(reqQty(r, 4))
//@   requires forall k in 0..len(r.Fields) :: fieldOK(r.Fields[k])
//@   modifies asRegsStart, asRegsRes
//@   ensures[C05] err == nil && len(vals) == len(r.Fields)
//@   ensures[C05] asRegsRes != nil && aliases(asRegsRes.data, resp.Data, 0, len(resp.Data)) && asRegsRes.startAddress == r.StartAddress && asRegsRes.defaultByteOrder == packet.BigEndianHighWordFirst
//@   ensures[C05] forall k in 0..len(vals) :: vals[k].Field == r.Fields[k] && vals[k].Error == nil
//@   ensures[C05] forall k in 0..len(vals) :: exVal1(asRegsRes, r.Fields[k], vals[k].Value) && exVal2(asRegsRes, r.Fields[k], vals[k].Value) && exVal3(asRegsRes, r.Fields[k], vals[k].Value) && exStr(asRegsRes, r.Fields[k], vals[k].Value)

// Truncated answer: the device returned fewer registers than asked for.
func lemmaC05TruncatedHoldingTCP(r BuilderRequest, resp *packet.ReadHoldingRegistersResponseTCP, lenient bool) (vals []FieldValue, err error) {
	return r.ExtractFields(resp, lenient)
}

//@ func lemmaC05TruncatedHoldingTCP(r BuilderRequest, resp *packet.ReadHoldingRegistersResponseTCP, lenient bool) (vals []FieldValue, err error)
//@   requires resp != nil && reqOK(r, 4) && len(resp.Data) >= 2 && len(resp.Data)%2 == 0 && len(resp.Data) <= 2*int(reqQty(r, 4))
//@   requires forall k in 0..len(r.Fields) :: fieldOK(r.Fields[k])
//@   modifies asRegsStart, asRegsRes
//@   ensures[C05] asRegsRes != nil && aliases(asRegsRes.data, resp.Data, 0, len(resp.Data)) && asRegsRes.startAddress == r.StartAddress
//@   ensures[C05] lenient ==> len(vals) == len(r.Fields)
//@   ensures[C05] lenient ==> forall k in 0..len(vals) :: vals[k].Field == r.Fields[k] && (vals[k].Error == nil <==> int(r.Fields[k].Address) + fieldRegs(r.Fields[k]) <= int(r.StartAddress) + len(resp.Data)/2)
//@   ensures[C05] lenient ==> (err == nil <==> forall k in 0..len(r.Fields) :: int(r.Fields[k].Address) + fieldRegs(r.Fields[k]) <= int(r.StartAddress) + len(resp.Data)/2)
//@   ensures[C05] !lenient && err != nil ==> len(vals) == 0
//@   ensures[C05] !lenient ==> (err == nil <==> forall k in 0..len(r.Fields) :: int(r.Fields[k].Address) + fieldRegs(r.Fields[k]) <= int(r.StartAddress) + len(resp.Data)/2)

// Composition: a request the builder produced (reqOK), answered by a device with exactly the registers asked for
// (resp.Data is the device memory image of the window [StartAddress, StartAddress+quantity)), extracted strictly or
// leniently: every field is reported once, attached to its own definition, without error, and its value is the decoding
// of the device memory at 2*(address-start) with the field's type and byte order.
func lemmaC05HoldingRTU(r BuilderRequest, resp *packet.ReadHoldingRegistersResponseRTU, lenient bool) (vals []FieldValue, err error) {
	return r.ExtractFields(resp, lenient)
}

//@ func lemmaC05HoldingRTU(r BuilderRequest, resp *packet.ReadHoldingRegistersResponseRTU, lenient bool) (vals []FieldValue, err error)
//@   requires resp != nil && reqOK(r, 5) && len(resp.Data) == 2*int(reqQty(r, 5))
//@   requires forall k in 0..len(r.Fields) :: fieldOK(r.Fields[k])
//@   modifies asRegsStart, asRegsRes
//@   ensures[C05] err == nil && len(vals) == len(r.Fields)
//@   ensures[C05] asRegsRes != nil && aliases(asRegsRes.data, resp.Data, 0, len(resp.Data)) && asRegsRes.startAddress == r.StartAddress && asRegsRes.defaultByteOrder == packet.BigEndianHighWordFirst
//@   ensures[C05] forall k in 0..len(vals) :: vals[k].Field == r.Fields[k] && vals[k].Error == nil
//@   ensures[C05] forall k in 0..len(vals) :: exVal1(asRegsRes, r.Fields[k], vals[k].Value) && exVal2(asRegsRes, r.Fields[k], vals[k].Value) && exVal3(asRegsRes, r.Fields[k], vals[k].Value) && exStr(asRegsRes, r.Fields[k], vals[k].Value)

// Truncated answer: the device returned fewer registers than asked for.
func lemmaC05TruncatedHoldingRTU(r BuilderRequest, resp *packet.ReadHoldingRegistersResponseRTU, lenient bool) (vals []FieldValue, err error) {
	return r.ExtractFields(resp, lenient)
}

//@ func lemmaC05TruncatedHoldingRTU(r BuilderRequest, resp *packet.ReadHoldingRegistersResponseRTU, lenient bool) (vals []FieldValue, err error)
//@   requires resp != nil && reqOK(r, 5) && len(resp.Data) >= 2 && len(resp.Data)%2 == 0 && len(resp.Data) <= 2*int(reqQty(r, 5))
//@   requires forall k in 0..len(r.Fields) :: fieldOK(r.Fields[k])
//@   modifies asRegsStart, asRegsRes
//@   ensures[C05] asRegsRes != nil && aliases(asRegsRes.data, resp.Data, 0, len(resp.Data)) && asRegsRes.startAddress == r.StartAddress
//@   ensures[C05] lenient ==> len(vals) == len(r.Fields)
//@   ensures[C05] lenient ==> forall k in 0..len(vals) :: vals[k].Field == r.Fields[k] && (vals[k].Error == nil <==> int(r.Fields[k].Address) + fieldRegs(r.Fields[k]) <= int(r.StartAddress) + len(resp.Data)/2)
//@   ensures[C05] lenient ==> (err == nil <==> forall k in 0..len(r.Fields) :: int(r.Fields[k].Address) + fieldRegs(r.Fields[k]) <= int(r.StartAddress) + len(resp.Data)/2)
//@   ensures[C05] !lenient && err != nil ==> len(vals) == 0
//@   ensures[C05] !lenient ==> (err == nil <==> forall k in 0..len(r.Fields) :: int(r.Fields[k].Address) + fieldRegs(r.Fields[k]) <= int(r.StartAddress) + len(resp.Data)/2)

// Composition: a request the builder produced (reqOK), answered by a device with exactly the registers asked for
// (resp.Data is the device memory image of the window [StartAddress, StartAddress+quantity)), extracted strictly or
// leniently: every field is reported once, attached to its own definition, without error, and its value is the decoding
// of the device memory at 2*(address-start) with the field's type and byte order.
func lemmaC05InputTCP(r BuilderRequest, resp *packet.ReadInputRegistersResponseTCP, lenient bool) (vals []FieldValue, err error) {
	return r.ExtractFields(resp, lenient)
}

//@ func lemmaC05InputTCP(r BuilderRequest, resp *packet.ReadInputRegistersResponseTCP, lenient bool) (vals []FieldValue, err error)
//@   requires resp != nil && reqOK(r, 6) && len(resp.Data) == 2*int(reqQty(r, 6))
//@   requires forall k in 0..len(r.Fields) :: fieldOK(r.Fields[k])
//@   modifies asRegsStart, asRegsRes
//@   ensures[C05] err == nil && len(vals) == len(r.Fields)
//@   ensures[C05] asRegsRes != nil && aliases(asRegsRes.data, resp.Data, 0, len(resp.Data)) && asRegsRes.startAddress == r.StartAddress && asRegsRes.defaultByteOrder == packet.BigEndianHighWordFirst
//@   ensures[C05] forall k in 0..len(vals) :: vals[k].Field == r.Fields[k] && vals[k].Error == nil
//@   ensures[C05] forall k in 0..len(vals) :: exVal1(asRegsRes, r.Fields[k], vals[k].Value) && exVal2(asRegsRes, r.Fields[k], vals[k].Value) && exVal3(asRegsRes, r.Fields[k], vals[k].Value) && exStr(asRegsRes, r.Fields[k], vals[k].Value)

// Truncated answer: the device returned fewer registers than asked for.
func lemmaC05TruncatedInputTCP(r BuilderRequest, resp *packet.ReadInputRegistersResponseTCP, lenient bool) (vals []FieldValue, err error) {
	return r.ExtractFields(resp, lenient)
}

//@ func lemmaC05TruncatedInputTCP(r BuilderRequest, resp *packet.ReadInputRegistersResponseTCP, lenient bool) (vals []FieldValue, err error)
//@   requires resp != nil && reqOK(r, 6) && len(resp.Data) >= 2 && len(resp.Data)%2 == 0 && len(resp.Data) <= 2*int(reqQty(r, 6))
//@   requires forall k in 0..len(r.Fields) :: fieldOK(r.Fields[k])
//@   modifies asRegsStart, asRegsRes
//@   ensures[C05] asRegsRes != nil && aliases(asRegsRes.data, resp.Data, 0, len(resp.Data)) && asRegsRes.startAddress == r.StartAddress
//@   ensures[C05] lenient ==> len(vals) == len(r.Fields)
//@   ensures[C05] lenient ==> forall k in 0..len(vals) :: vals[k].Field == r.Fields[k] && (vals[k].Error == nil <==> int(r.Fields[k].Address) + fieldRegs(r.Fields[k]) <= int(r.StartAddress) + len(resp.Data)/2)
//@   ensures[C05] lenient ==> (err == nil <==> forall k in 0..len(r.Fields) :: int(r.Fields[k].Address) + fieldRegs(r.Fields[k]) <= int(r.StartAddress) + len(resp.Data)/2)
//@   ensures[C05] !lenient && err != nil ==> len(vals) == 0
//@   ensures[C05] !lenient ==> (err == nil <==> forall k in 0..len(r.Fields) :: int(r.Fields[k].Address) + fieldRegs(r.Fields[k]) <= int(r.StartAddress) + len(resp.Data)/2)

// Composition: a request the builder produced (reqOK), answered by a device with exactly the registers asked for
// (resp.Data is the device memory image of the window [StartAddress, StartAddress+quantity)), extracted strictly or
// leniently: every field is reported once, attached to its own definition, without error, and its value is the decoding
// of the device memory at 2*(address-start) with the field's type and byte order.
func lemmaC05InputRTU(r BuilderRequest, resp *packet.ReadInputRegistersResponseRTU, lenient bool) (vals []FieldValue, err error) {
	return r.ExtractFields(resp, lenient)
}

//@ func lemmaC05InputRTU(r BuilderRequest, resp *packet.ReadInputRegistersResponseRTU, lenient bool) (vals []FieldValue, err error)
//@   requires resp != nil && reqOK(r, 7) && len(resp.Data) == 2*int(reqQty(r, 7))
//@   requires forall k in 0..len(r.Fields) :: fieldOK(r.Fields[k])
//@   modifies asRegsStart, asRegsRes
//@   ensures[C05] err == nil && len(vals) == len(r.Fields)
//@   ensures[C05] asRegsRes != nil && aliases(asRegsRes.data, resp.Data, 0, len(resp.Data)) && asRegsRes.startAddress == r.StartAddress && asRegsRes.defaultByteOrder == packet.BigEndianHighWordFirst
//@   ensures[C05] forall k in 0..len(vals) :: vals[k].Field == r.Fields[k] && vals[k].Error == nil
//@   ensures[C05] forall k in 0..len(vals) :: exVal1(asRegsRes, r.Fields[k], vals[k].Value) && exVal2(asRegsRes, r.Fields[k], vals[k].Value) && exVal3(asRegsRes, r.Fields[k], vals[k].Value) && exStr(asRegsRes, r.Fields[k], vals[k].Value)

// Truncated answer: the device returned fewer registers than asked for.
func lemmaC05TruncatedInputRTU(r BuilderRequest, resp *packet.ReadInputRegistersResponseRTU, lenient bool) (vals []FieldValue, err error) {
	return r.ExtractFields(resp, lenient)
}

//@ func lemmaC05TruncatedInputRTU(r BuilderRequest, resp *packet.ReadInputRegistersResponseRTU, lenient bool) (vals []FieldValue, err error)
//@   requires resp != nil && reqOK(r, 7) && len(resp.Data) >= 2 && len(resp.Data)%2 == 0 && len(resp.Data) <= 2*int(reqQty(r, 7))
//@   requires forall k in 0..len(r.Fields) :: fieldOK(r.Fields[k])
//@   modifies asRegsStart, asRegsRes
//@   ensures[C05] asRegsRes != nil && aliases(asRegsRes.data, resp.Data, 0, len(resp.Data)) && asRegsRes.startAddress == r.StartAddress
//@   ensures[C05] lenient ==> len(vals) == len(r.Fields)
//@   ensures[C05] lenient ==> forall k in 0..len(vals) :: vals[k].Field == r.Fields[k] && (vals[k].Error == nil <==> int(r.Fields[k].Address) + fieldRegs(r.Fields[k]) <= int(r.StartAddress) + len(resp.Data)/2)
//@   ensures[C05] lenient ==> (err == nil <==> forall k in 0..len(r.Fields) :: int(r.Fields[k].Address) + fieldRegs(r.Fields[k]) <= int(r.StartAddress) + len(resp.Data)/2)
//@   ensures[C05] !lenient && err != nil ==> len(vals) == 0
//@   ensures[C05] !lenient ==> (err == nil <==> forall k in 0..len(r.Fields) :: int(r.Fields[k].Address) + fieldRegs(r.Fields[k]) <= int(r.StartAddress) + len(resp.Data)/2)
