package server

import "context"

// Lemma procedures for C15 (ghost code, overlay only).

// lemmaC15Lockstep feeds ONE request frame f to the assembler in arbitrarily many chunks of arbitrary sizes
// (cuts[i], clamped to what is left) and counts the replies.  The loop invariant carries "nothing was sent and the
// buffer holds exactly the bytes fed so far"; the post-condition says: no reply before the last byte, exactly one
// reply (addressed to f) when the last byte has arrived, buffer empty afterwards.
func lemmaC15Lockstep(m *ModbusTCPAssembler, ctx context.Context, f []byte, cuts []int) (pos int, replies int, last []byte) {
	for i := 0; i < len(cuts) && pos < len(f); i++ {
		k := cuts[i]
		if k < 1 || k > len(f)-pos {
			k = len(f) - pos
		}
		resp, _ := m.ReceiveRead(ctx, f[pos:pos+k], k)
		pos += k
		if resp != nil {
			replies++
			last = resp
		}
	}
	return
}

//@ func lemmaC15Lockstep(m *ModbusTCPAssembler, ctx context.Context, f []byte, cuts []int) (pos int, replies int, last []byte)
//@   requires m != nil && m.Handler != nil && buflen(m.received) == 0
//@   requires len(f) >= 9 && len(f) <= 65541 && f[2] == 0 && f[3] == 0 && int(be16(f,4)) == len(f) - 6 && f[7] != 0 && f[7] < 128
//@   modifies m.received, handled, lastHandleErr
//@   ensures[C15.lockstep] 0 <= pos && pos <= len(f) && (pos < len(f) ==> replies == 0 && handled == old(handled) && buflen(m.received) == pos)
//@   ensures[C15.lockstep] pos == len(f) ==> replies == 1 && buflen(m.received) == 0 && handled <= old(handled) + 1
//@   ensures[C15.lockstep,C16] pos == len(f) && (!supportedFC(f[7]) || handled == old(handled) || lastHandleErr != nil) ==> isException(last) && exceptionFor(last, f)
//@   loop 0
//@     modifies m.received, handled, lastHandleErr
//@     invariant 0 <= i && 0 <= pos && pos <= len(f) && 0 <= replies
//@     invariant pos < len(f) ==> replies == 0 && handled == old(handled) && buflen(m.received) == pos
//@     invariant pos < len(f) ==> forall k in 0..pos :: bufbyte(m.received, k) == f[k]
//@     invariant pos == len(f) ==> replies == 1 && buflen(m.received) == 0 && handled <= old(handled) + 1
//@     invariant pos == len(f) && (!supportedFC(f[7]) || handled == old(handled) || lastHandleErr != nil) ==> isException(last) && exceptionFor(last, f)
