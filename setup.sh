#!/bin/sh
# builds the verifier from vendored sources only (offline)
set -e
cd /verif/govc
export GOFLAGS=-mod=vendor GOPROXY=off GOSUMDB=off GOTOOLCHAIN=local CGO_ENABLED=0
mkdir -p /verif/bin
go build -o /verif/bin/govc .
